#[derive(Debug)]
pub struct Error { msg: String }
