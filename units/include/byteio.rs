// ---- E12: generic `impl Read` / `impl Write` parameters are instantiated with these in-memory
// models (assumption: the reader behaves like std::io::Cursor<&[u8]> / the writer like Vec<u8>).
pub struct ByteSource {
    pub data: Vec<u8>,
    pub pos: usize,
}

impl ByteSource {
    pub fn read_exact(&mut self, buf: &mut [u8; 4]) -> (r: Result<()>)
        requires old(self).pos <= old(self).data@.len()
        ensures
            final(self).data@ == old(self).data@,
            r is Ok ==> old(self).pos + 4 <= old(self).data@.len() && final(self).pos == old(self).pos + 4
                && final(buf)@ == old(self).data@.subrange(old(self).pos as int, old(self).pos + 4),
            r is Err ==> old(self).pos + 4 > old(self).data@.len() && final(self).pos == old(self).pos,
    {
        if self.data.len() - self.pos < 4 {
            return Err(err_str("unexpected end of file"));
        }
        let p = self.pos;
        buf[0] = self.data[p];
        buf[1] = self.data[p + 1];
        buf[2] = self.data[p + 2];
        buf[3] = self.data[p + 3];
        self.pos = p + 4;
        proof { assert(buf@ =~= self.data@.subrange(p as int, p + 4)); }
        Ok(())
    }
}

pub struct ByteSink {
    pub data: Vec<u8>,
}

impl ByteSink {
    pub fn write_all(&mut self, bytes: &[u8; 4]) -> (r: Result<()>)
        ensures r is Ok, final(self).data@ == old(self).data@ + bytes@
    {
        self.data.push(bytes[0]);
        self.data.push(bytes[1]);
        self.data.push(bytes[2]);
        self.data.push(bytes[3]);
        proof { assert(self.data@ =~= old(self).data@ + bytes@); }
        Ok(())
    }
}

// little-endian u32 codec (assumed specifications of core::num, cross-checked by Kani harness u00_le_bytes)
pub open spec fn le32(b: Seq<u8>) -> u32 {
    (b[0] as u32) | ((b[1] as u32) << 8u32) | ((b[2] as u32) << 16u32) | ((b[3] as u32) << 24u32)
}
pub open spec fn le_bytes(x: u32) -> Seq<u8> {
    seq![(x & 0xFF) as u8, ((x >> 8u32) & 0xFF) as u8, ((x >> 16u32) & 0xFF) as u8, ((x >> 24u32) & 0xFF) as u8]
}
// E12-std: `u32::from_le_bytes(b)` / `x.to_le_bytes()` are rewritten to these trusted wrappers (the installed
// Verus cannot match the const-generic array length in their std signatures); cross-checked by Kani u00_le_bytes.
#[verifier::external_body]
pub fn u32_from_le_bytes(b: [u8; 4]) -> (r: u32)
    ensures r == le32(b@)
{ u32::from_le_bytes(b) }
#[verifier::external_body]
pub fn u32_to_le_bytes(x: u32) -> (r: [u8; 4])
    ensures r@ == le_bytes(x)
{ x.to_le_bytes() }

pub proof fn lemma_le_roundtrip(x: u32)
    ensures le32(le_bytes(x)) == x
{
    let b = le_bytes(x);
    assert(b[0] == (x & 0xFF) as u8 && b[1] == ((x >> 8u32) & 0xFF) as u8 && b[2] == ((x >> 16u32) & 0xFF) as u8 && b[3] == ((x >> 24u32) & 0xFF) as u8);
    assert((((x & 0xFF) as u8) as u32) | ((((x >> 8u32) & 0xFF) as u8 as u32) << 8u32) | ((((x >> 16u32) & 0xFF) as u8 as u32) << 16u32) | ((((x >> 24u32) & 0xFF) as u8 as u32) << 24u32) == x) by (bit_vector);
}
