// ---- E12: `writer: &mut W` (W: Write, with the crate's little-endian extension trait) is instantiated with
// this in-memory sink; the extension-trait methods are modelled by inherent methods with the same names.
pub struct OutSink {
    pub data: Vec<u8>,
}

pub uninterp spec fn f32_le(x: f32) -> Seq<u8>;   // the four little-endian bytes of an f32 (to_le_bytes)

impl OutSink {
    pub fn write_all(&mut self, bytes: &[u8]) -> (r: Result<()>)
        ensures r is Ok, final(self).data@ == old(self).data@ + bytes@
    {
        self.data.extend_from_slice(bytes);
        Ok(())
    }
    pub fn write_u8(&mut self, val: u8) -> (r: Result<()>)
        ensures r is Ok, final(self).data@ == old(self).data@ + seq![val]
    {
        self.data.push(val);
        proof { assert(self.data@ =~= old(self).data@ + seq![val]); }
        Ok(())
    }
    #[verifier::external_body]
    pub fn write_u16_le(&mut self, val: u16) -> (r: Result<()>)
        ensures r is Ok, final(self).data@ == old(self).data@ + seq![(val & 0xFF) as u8, (val >> 8u16) as u8]
    { self.data.extend_from_slice(&val.to_le_bytes()); Ok(()) }
    #[verifier::external_body]
    pub fn write_u32_le(&mut self, val: u32) -> (r: Result<()>)
        ensures r is Ok, final(self).data@ == old(self).data@ + le_bytes32(val)
    { self.data.extend_from_slice(&val.to_le_bytes()); Ok(()) }
    #[verifier::external_body]
    pub fn write_f32_le(&mut self, val: f32) -> (r: Result<()>)
        ensures r is Ok, final(self).data@ == old(self).data@ + f32_le(val), f32_le(val).len() == 4
    { self.data.extend_from_slice(&val.to_le_bytes()); Ok(()) }
}

pub open spec fn le_bytes32(x: u32) -> Seq<u8> {
    seq![(x & 0xFF) as u8, ((x >> 8u32) & 0xFF) as u8, ((x >> 16u32) & 0xFF) as u8, ((x >> 24u32) & 0xFF) as u8]
}
