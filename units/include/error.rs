// ---- E9: opaque error type.  `crate::Error` is external; its constructors are
// external_body functions without postconditions, so no contract can speak about an
// error payload, only about is_ok()/is_err().
#[verifier::external_type_specification]
#[verifier::external_body]
pub struct ExError(Error);
pub type Result<T> = core::result::Result<T, Error>;

#[verifier::external_body]
fn err_str(msg: &str) -> Error { Error { msg: String::new() } }
#[verifier::external_body]
fn err_string(msg: String) -> Error { Error { msg } }
