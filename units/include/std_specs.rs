// ---- assumed specifications of std functions that vstd does not cover
// (each is cross-checked against the real std function by a Kani harness: kani/wow-mpq u00_std_*)
pub assume_specification<T: Clone> [<[T]>::to_vec] (s: &[T]) -> (v: Vec<T>)
    ensures v@.len() == s@.len(), forall|i: int| 0 <= i < s@.len() ==> call_ensures(T::clone, (&s@[i],), #[trigger] v@[i]);
