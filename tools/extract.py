"""Mechanical extraction of real functions from /repo into a single Verus file.

A unit file (units/*.vrs) is Verus text with `//@` directives.  Text outside
`//@extract … //@end` blocks is hand-written specification (spec fns, lemmas,
assumed std specs) and is copied verbatim.  An extract block names an item of the real
source; the item text is taken from the working tree on every run, brought to a
normal form (E1–E4) and annotated (E5–E10).  Every character the tool adds is wrapped in
`/*@+*/ … /*@-*/`, every replaced span is wrapped in `/*@r:<hex of old text>*/ … /*@e*/`,
so `erase()` can recover the normal form from the generated file alone and compare it
with a freshly computed normal form of the source (the erasure check).

Directives inside an extract block (the lines that follow a directive, up to the next
directive, are the text it inserts):

  //@extract <path relative to repo> | <selector>
        selector:  fn NAME | impl TYPE fn NAME | const NAME | static NAME | struct NAME | enum NAME
  //@ret NAME                  name the return value:  -> T   becomes  -> (NAME: T)
  //@sig                       requires/ensures/decreases placed before the body brace
  //@top                       ghost text placed right after the body's opening brace
  //@loop N [BINDER]           invariant/decreases for the N-th loop (source order);
                               BINDER adds the Verus ghost iterator binder `for x in BINDER: e`
  //@refpat N                  E5: `for &x in e {` -> `for x__r in e { let x = *x__r;`
  //@before K | LITERAL        ghost text before the K-th occurrence of a statement starting with LITERAL
  //@after K | LITERAL         ghost text after that statement
  //@rewrite CLASS | OLD | NEW rewrite exactly one occurrence (reported in evidence by CLASS)
  //@rewriteall CLASS | OLD | NEW   rewrite every occurrence (>=1)
  //@execconst                 E6: `const X: T = e;` -> `exec const X: T <sig> { e }`
  //@rename NEWNAME            rename the extracted fn (used when two impls share a name)
  //@fields a,b,c              E8: keep only these fields of a struct (types checked verbatim)
  //@allowcfg                  tolerate #[cfg(..)] attributes inside the item (they are stripped)
  //@end

Top-level directives:
  //@unit ID props=C04,C02 [expect=N]
  //@include FILE              (relative to units/include)
  //@twin NAME | OLD | NEW     must-fail twin: the generated file with OLD->NEW must NOT verify
  //@trusted KIND=N ...        declared number of trusted constructs (scan must match)
"""
import os
import re
import sys

sys.path.insert(0, os.path.dirname(os.path.abspath(__file__)))
import rustlex as rl  # noqa: E402


class ExtractError(Exception):
    """Anchor lost / unsupported construct: exit 2, never a VIOLATION."""


LOG_MACROS = {'trace', 'debug', 'info', 'warn', 'error'}
GHOST_STARTS = ('requires', 'ensures', 'invariant', 'invariant_except_break', 'decreases', 'proof', 'let ghost',
                'assert', 'broadcast use', 'returns', 'no_unwind', 'opens_invariants', 'recommends', 'let tracked',
                'ensures_except_break')


# ----------------------------------------------------------------------------- locate

def locate(src, m, selector):
    toks = selector.split()
    lo, hi, want_depth = 0, len(src), 0
    if toks[0] == 'impl':
        tname = toks[1]
        rest = toks[2:]
        blocks = list(rl.find_impl_blocks(src, m, tname))
        if not blocks:
            raise ExtractError("anchor lost: impl %s" % tname)
        cands = []
        for (_, ob, cb) in blocks:
            r = _find_in(src, m, ob + 1, cb, rest, 0)
            cands.extend(r)
        if len(cands) != 1:
            raise ExtractError("anchor lost or ambiguous (%d): %s" % (len(cands), selector))
        return cands[0]
    if toks[0] == 'mod' and len(toks) > 2:
        # `mod NAME <selector>`: search inside the inline module's braces
        mname = toks[1]
        found = []
        for pos, w in rl.word_iter(src, m):
            if w == 'mod' and src[pos + 3:].lstrip().startswith(mname):
                ob = rl.find_body_open(src, m, pos)
                if ob > 0 and src[pos + 3:ob].strip() == mname:
                    found.append((ob, rl.match_close(src, m, ob)))
        if len(found) != 1:
            raise ExtractError("anchor lost: mod %s" % mname)
        cands = _find_in(src, m, found[0][0] + 1, found[0][1], toks[2:], 0)
        if len(cands) != 1:
            raise ExtractError("anchor lost or ambiguous (%d): %s" % (len(cands), selector))
        return cands[0]
    cands = _find_in(src, m, lo, hi, toks, want_depth)
    if len(cands) != 1:
        raise ExtractError("anchor lost or ambiguous (%d): %s" % (len(cands), selector))
    return cands[0]


def _find_in(src, m, lo, hi, toks, want_depth):
    kind, name = toks[0], toks[1]
    out = []
    depth = 0
    words = list(rl.word_iter(src, m, lo, hi))
    # precompute depth at each keyword lazily
    last = lo
    for idx, (pos, w) in enumerate(words):
        if w != kind:
            continue
        if idx + 1 >= len(words) or words[idx + 1][1] != name:
            continue
        # name must follow directly (only whitespace between)
        if src[pos + len(kind):words[idx + 1][0]].strip() != '':
            continue
        if rl.depth_at(src, m, lo, pos) != want_depth:
            continue
        start = rl.item_start(src, m, pos)
        start = max(start, lo)
        if kind in ('fn',):
            ob = rl.find_body_open(src, m, pos)
            if ob < 0:
                continue
            end = rl.match_close(src, m, ob) + 1
        elif kind in ('struct', 'enum'):
            ob = rl.find_body_open(src, m, pos)
            if ob < 0:
                # tuple struct `struct X(..);`
                sc = rl.code_find(src, m, ';', pos)
                end = sc + 1
            else:
                end = rl.match_close(src, m, ob) + 1
        elif kind in ('const', 'static'):
            # up to the terminating ';' at depth 0
            j = pos
            d = 0
            while j < hi:
                if m[j] == 'c':
                    c = src[j]
                    if c in '([{':
                        d += 1
                    elif c in ')]}':
                        d -= 1
                    elif c == ';' and d == 0:
                        break
                j += 1
            end = j + 1
        else:
            raise ExtractError("unsupported selector kind %s" % kind)
        out.append((start, end))
    return out


# ----------------------------------------------------------------------------- normal form (E2–E4)

def normal_form(text, allow_cfg=False, keep_pub=False):
    drops = {'comments': 0, 'attributes': [], 'visibility': 0, 'log_statements': []}
    m = rl.mask(text)
    # E2 comments
    out = []
    for ch, k in zip(text, m):
        if k == '/':
            if ch == '\n':
                out.append('\n')
            continue
        out.append(ch)
    if '/' in m:
        drops['comments'] = sum(1 for i in range(len(m)) if m[i] == '/' and (i == 0 or m[i - 1] != '/'))
    text = ''.join(out)
    # E2 attributes
    m = rl.mask(text)
    res = []
    i = 0
    n = len(text)
    while i < n:
        if m[i] == 'c' and text[i] == '#' and i + 1 < n and (text[i + 1] == '[' or text[i + 1:i + 3] == '!['):
            ob = text.index('[', i)
            cb = rl.match_close(text, m, ob)
            attr = text[i:cb + 1]
            body = re.sub(r'\s+', '', attr)
            if body.startswith('#[cfg') and not allow_cfg:
                raise ExtractError("unsupported: cfg attribute inside extracted item: %s" % attr)
            if body.startswith('#[derive('):
                res.append(attr)
            else:
                drops['attributes'].append(re.sub(r'\s+', ' ', attr))
            i = cb + 1
            continue
        res.append(text[i])
        i += 1
    text = ''.join(res)
    # E3 visibility
    m = rl.mask(text)
    res = []
    i = 0
    n = len(text)
    for pos, w in list(rl.word_iter(text, m)):
        pass
    pat = re.compile(r'\bpub(\s*\([^)]*\))?\s+')
    last = 0
    for mm in pat.finditer(text):
        if m[mm.start()] != 'c' or keep_pub:
            continue
        res.append(text[last:mm.start()])
        last = mm.end()
        drops['visibility'] += 1
    res.append(text[last:])
    text = ''.join(res)
    # E4 logging statements
    m = rl.mask(text)
    spans = []
    for pos, w in rl.word_iter(text, m):
        if w not in LOG_MACROS:
            continue
        j = pos + len(w)
        if not text.startswith('!', j):
            continue
        st = pos
        if text[:pos].endswith('log::'):
            st = pos - 5
        # must be at statement start
        k = st - 1
        while k >= 0 and text[k] in ' \t\n':
            k -= 1
        if k >= 0 and text[k] not in '{};':
            continue
        ob = j + 1
        while ob < len(text) and text[ob] in ' \t\n':
            ob += 1
        if ob >= len(text) or text[ob] != '(':
            continue
        cb = rl.match_close(text, m, ob)
        e = cb + 1
        while e < len(text) and text[e] in ' \t':
            e += 1
        if e < len(text) and text[e] == ';':
            e += 1
        else:
            continue  # expression position, leave
        args = text[ob + 1:cb]
        am = m[ob + 1:cb]
        # split at top-level commas (code positions only)
        parts, cur, d = [], [], 0
        for c, kk in zip(args, am):
            if kk == 'c':
                if c in '([{':
                    d += 1
                elif c in ')]}':
                    d -= 1
                elif c == ',' and d == 0:
                    parts.append(''.join(cur))
                    cur = []
                    continue
            cur.append(c)
        if ''.join(cur).strip():
            parts.append(''.join(cur))
        keep = []
        for a in parts[1:]:
            a2 = a.strip()
            if '=' in a2 and re.match(r'^[A-Za-z_][A-Za-z0-9_]*\s*=[^=]', a2):
                a2 = a2.split('=', 1)[1].strip()
            if re.match(r'^&?[A-Za-z_][A-Za-z0-9_.]*(\.len\(\))?$', a2):
                continue  # a place expression or .len(): evaluation cannot panic
            # E4b: anything else is kept as an evaluated let-binding so that its panic freedom stays an obligation
            keep.append('let _log_arg = %s;' % a2)
        spans.append((st, e, ' '.join(keep)))
        drops['log_statements'].append(re.sub(r'\s+', ' ', text[st:e])[:100] + (' [arguments kept: %d]' % len(keep) if keep else ''))
    for st, e, rep in reversed(spans):
        text = text[:st] + rep + text[e:]
    # whitespace: drop trailing blanks and empty lines
    lines = [ln.rstrip() for ln in text.split('\n')]
    lines = [ln for ln in lines if ln.strip() != '']
    return '\n'.join(lines) + '\n', drops


def squash(s):
    return re.sub(r'\s+', '', s)


# ----------------------------------------------------------------------------- ops

class Ops:
    def __init__(self, nf):
        self.nf = nf
        self.m = rl.mask(nf)
        self.ops = []  # (start, end, new, kind, cls)
        self.rewrites = []

    def insert(self, pos, text, cls='ghost', prio=0):
        self.ops.append((pos, pos, text, 'ins', cls, prio))

    def replace(self, s, e, new, cls):
        self.ops.append((s, e, new, 'rep', cls, 0))
        self.rewrites.append({'class': cls, 'old': self.nf[s:e], 'new': new})

    def render(self):
        ops = sorted(self.ops, key=lambda o: (o[0], o[1], o[5]))
        # overlap check
        for a, b in zip(ops, ops[1:]):
            if a[1] > b[0]:
                raise ExtractError("overlapping annotation ops at %d: %r / %r" % (b[0], a[2][:30], b[2][:30]))
        out = []
        last = 0
        for (s, e, new, kind, cls, _p) in ops:
            out.append(self.nf[last:s])
            if kind == 'ins':
                out.append('/*@+*/' + new + '/*@-*/')
            else:
                out.append('/*@r:%s*/' % self.nf[s:e].encode().hex() + new + '/*@e*/')
            last = e
        out.append(self.nf[last:])
        return ''.join(out)


def erase(gen):
    """Inverse of Ops.render on a generated region."""
    out = re.sub(r'/\*@\+\*/.*?/\*@-\*/', '', gen, flags=re.S)

    def rep(mm):
        return bytes.fromhex(mm.group(1)).decode()
    out = re.sub(r'/\*@r:([0-9a-f]*)\*/.*?/\*@e\*/', rep, out, flags=re.S)
    return out


def _fn_parts(nf, m):
    """Return (fn_kw_pos, body_open, body_close)."""
    for pos, w in rl.word_iter(nf, m):
        if w == 'fn':
            ob = rl.find_body_open(nf, m, pos)
            if ob < 0:
                raise ExtractError("fn without body")
            return pos, ob, rl.match_close(nf, m, ob)
    raise ExtractError("no fn in item")


def _loops(nf, m, lo, hi):
    out = []
    for pos, w in rl.word_iter(nf, m, lo, hi):
        if w in ('for', 'while', 'loop'):
            # `for` in `impl X for Y` / HRTB cannot occur inside a body at statement level; accept
            ob = rl.find_body_open(nf, m, pos + len(w))
            if ob < 0:
                continue
            out.append((pos, w, ob))
    return out


def _stmt_anchor(nf, m, lit, k, lo, hi):
    i = lo
    cnt = 0
    while True:
        j = rl.code_find(nf, m, lit, i, hi)
        if j < 0:
            raise ExtractError("anchor lost: statement %r occurrence %d" % (lit, k))
        # statement boundary check
        p = j - 1
        while p >= 0 and nf[p] in ' \t\n':
            p -= 1
        if p < 0 or nf[p] in '{};':
            cnt += 1
            if cnt == k:
                return j
        i = j + 1


def _stmt_end(nf, m, j, hi):
    d = 0
    i = j
    while i < hi:
        if m[i] == 'c':
            c = nf[i]
            if c in '([':
                d += 1
            elif c in ')]':
                d -= 1
            elif c == '{':
                cb = rl.match_close(nf, m, i)
                if d == 0:
                    # block at statement level: ends stmt unless followed by else / ; / method chain
                    k = cb + 1
                    while k < hi and nf[k] in ' \t\n':
                        k += 1
                    if nf.startswith('else', k):
                        i = k + 4
                        continue
                    if k < hi and nf[k] == ';':
                        return k + 1
                    if k < hi and nf[k] in '.?':
                        i = k
                        continue
                    return cb + 1
                i = cb + 1
                continue
            elif c == ';' and d == 0:
                return i + 1
        i += 1
    raise ExtractError("statement end not found")


def check_ghost(text, where):
    t = text.strip()
    if not t:
        return
    if not t.startswith(GHOST_STARTS):
        raise ExtractError("annotation at %s is not ghost/contract text: %r" % (where, t[:40]))


def annotate(nf, directives, kind):
    """directives: list of (name, arg, text)."""
    ops = Ops(nf)
    m = ops.m
    if kind == 'fn':
        fnpos, ob, cb = _fn_parts(nf, m)
        loops = _loops(nf, m, ob + 1, cb)
    else:
        fnpos = ob = cb = None
        loops = []
    sig_text = ''
    for (name, arg, text) in directives:
        if name == 'ret':
            arrow = rl.code_find(nf, m, '->', fnpos, ob)
            if arrow < 0:
                raise ExtractError("ret: no return type")
            ts = arrow + 2
            while nf[ts] in ' \t\n':
                ts += 1
            # type ends at `where` keyword (depth 0) or at body open
            te = ob
            for p, w in rl.word_iter(nf, m, ts, ob):
                if w == 'where':
                    te = p
                    break
            while nf[te - 1] in ' \t\n':
                te -= 1
            ops.insert(ts, '(%s: ' % arg.strip(), 'E10-ret')
            ops.insert(te, ')', 'E10-ret')
        elif name == 'sig':
            check_ghost(text, 'sig')
            if kind == 'fn':
                p = ob
                while nf[p - 1] in ' \t\n':
                    p -= 1
                ops.insert(p, '\n' + text.rstrip() + '\n', 'E10-sig', prio=5)
            else:
                sig_text = text
        elif name == 'top':
            check_ghost(text, 'top')
            ops.insert(ob + 1, '\n' + text.rstrip() + '\n', 'E10-top', prio=9)
        elif name == 'loop':
            a = arg.split()
            n = int(a[0])
            if n < 1 or n > len(loops):
                raise ExtractError("anchor lost: loop %d (function has %d loops)" % (n, len(loops)))
            lpos, lw, lob = loops[n - 1]
            check_ghost(text, 'loop %d' % n)
            p = lob
            while nf[p - 1] in ' \t\n':
                p -= 1
            ops.insert(p, '\n' + text.rstrip() + '\n', 'E10-loop', prio=5)
            if len(a) > 1:
                if lw != 'for':
                    raise ExtractError("binder on non-for loop %d" % n)
                inpos = None
                d = 0
                for p2, w2 in rl.word_iter(nf, m, lpos + 3, lob):
                    if w2 == 'in':
                        inpos = p2
                        break
                if inpos is None:
                    raise ExtractError("for loop without in")
                ops.insert(inpos + 3, a[1] + ': ', 'E7-binder')
        elif name == 'refpat':
            n = int(arg.strip())
            if n < 1 or n > len(loops):
                raise ExtractError("anchor lost: loop %d" % n)
            lpos, lw, lob = loops[n - 1]
            mm = re.compile(r'for\s+&([A-Za-z_][A-Za-z0-9_]*|\([A-Za-z0-9_, ]*\))\s+in\b').match(nf, lpos)
            if not mm:
                raise ExtractError("refpat: loop %d is not `for &x in` / `for &(a, b) in`" % n)
            pat = mm.group(1)
            nm = pat if not pat.startswith('(') else 'tuple%d' % n
            ops.replace(mm.start(1) - 1, mm.end(1), nm + '__r', 'E5-refpat')
            ops.insert(lob + 1, ' let %s = *%s__r;' % (pat, nm), 'E5-refpat', prio=1)
        elif name in ('before', 'after'):
            ks, lit = arg.split('|', 1)
            k = int(ks.strip())
            lit = lit.strip()
            lo, hi = (ob + 1, cb) if kind == 'fn' else (0, len(nf))
            j = _stmt_anchor(nf, m, lit, k, lo, hi)
            check_ghost(text, '%s %s' % (name, lit))
            if name == 'before':
                ops.insert(j, text.rstrip() + '\n', 'E10-stmt', prio=5)
            else:
                e = _stmt_end(nf, m, j, hi)
                ops.insert(e, '\n' + text.rstrip() + '\n', 'E10-stmt', prio=5)
        elif name in ('rewrite', 'rewriteall'):
            parts = [x.strip() for x in arg.split('|')]
            if len(parts) != 3:
                raise ExtractError("rewrite needs CLASS | OLD | NEW")
            cls, old, new = parts
            hits = []
            i = 0
            while True:
                j = rl.code_find(nf, m, old, i)
                if j < 0:
                    break
                hits.append(j)
                i = j + len(old)
            # hits already covered by an earlier (more specific) rewrite are skipped
            taken = [(o[0], o[1]) for o in ops.ops if o[3] == 'rep']
            hits = [j for j in hits if not any(s0 < j + len(old) and j < e0 for (s0, e0) in taken)]
            if not hits or (name == 'rewrite' and len(hits) != 1):
                raise ExtractError("anchor lost: rewrite %r matched %d times" % (old, len(hits)))
            for j in hits:
                ops.replace(j, j + len(old), new, cls)
        elif name in ('rewritere', 'rewritereall'):
            parts = [x.strip() for x in arg.split('@@')]
            if len(parts) != 3:
                raise ExtractError("rewritere needs CLASS @@ REGEX @@ NEW")
            cls, rx, new = parts
            hits = [mm for mm in re.finditer(rx, nf, flags=re.S) if m[mm.start()] == 'c']
            if name == 'rewritere' and len(hits) != 1:
                raise ExtractError("anchor lost: rewritere %r matched %d times" % (rx, len(hits)))
            if not hits:
                raise ExtractError("anchor lost: rewritereall %r matched 0 times" % rx)
            for h in hits:
                ops.replace(h.start(), h.end(), h.expand(new), cls)
        elif name == 'execconst':
            mm = re.compile(r'\s*(const|static)\b').match(nf)
            if not mm:
                raise ExtractError("execconst: not a const item")
            ops.insert(mm.start(1), 'exec ', 'E6-execconst')
            eq = rl.code_find(nf, m, '=', 0)
            semi = nf.rstrip().rfind(';')
            ops.replace(eq, eq + 1, '{', 'E6-execconst')
            ops.replace(semi, semi + 1, '}', 'E6-execconst')
            # sig inserted just before '='
            for (n2, a2, t2) in directives:
                if n2 == 'sig':
                    check_ghost(t2, 'sig')
                    ops.insert(eq, '\n' + t2.rstrip() + '\n', 'E10-sig', prio=-1)
        elif name == 'rename':
            mm = re.compile(r'fn\s+([A-Za-z_][A-Za-z0-9_]*)').search(nf, fnpos)
            ops.replace(mm.start(1), mm.end(1), arg.strip(), 'rename')
        elif name == 'ascribe':
            # E10-type-ascription: `let mut x = ..` -> `let mut x: T = ..` (semantically neutral; needed where a ghost
            # annotation mentions the variable before rustc has inferred its type)
            lit, ty = [x.strip() for x in arg.split('|', 1)]
            if not re.match(r'^: [A-Za-z0-9_<>, \[\];:()&]+$', ty):
                raise ExtractError("ascribe: not a type ascription: %r" % ty)
            cands = []
            st = ob + 1 if kind == 'fn' else 0
            while True:
                j = rl.code_find(nf, m, lit, st)
                if j < 0:
                    break
                nxt = nf[j + len(lit)] if j + len(lit) < len(nf) else ' '
                if not (nxt.isalnum() or nxt == '_'):
                    cands.append(j)
                st = j + 1
            if len(cands) != 1:
                raise ExtractError("anchor lost: ascribe %r (%d matches)" % (lit, len(cands)))
            j = cands[0]
            ops.insert(j + len(lit), ty, 'E10-type-ascription')
        elif name == 'attr':
            if not re.match(r'^#\[verifier::(loop_isolation\(false\)|allow_complex_invariants|spinoff_prover|rlimit\(\d+\))\]$', arg.strip()):
                raise ExtractError("attr not allowed: %s" % arg)
            mm0 = re.compile(r'\s*').match(nf)
            ops.insert(mm0.end(), arg.strip() + '\n', 'E10-attr', prio=-5)
        elif name in ('allowcfg', 'fields', 'keeppub'):
            pass
        else:
            raise ExtractError("unknown directive %s" % name)
    return ops.render(), ops.rewrites


def narrow_struct(nf, fields):
    """E8: keep only the listed fields of `struct X { a: T, b: U, }` (verbatim types)."""
    m = rl.mask(nf)
    ob = rl.code_find(nf, m, '{', 0)
    cb = rl.match_close(nf, m, ob)
    body = nf[ob + 1:cb]
    bm = m[ob + 1:cb]
    parts = []
    d = 0
    cur = []
    for ch, k in zip(body, bm):
        if k == 'c':
            if ch in '<([{':
                d += 1
            elif ch in '>)]}':
                d -= 1
            elif ch == ',' and d == 0:
                parts.append(''.join(cur))
                cur = []
                continue
        cur.append(ch)
    if ''.join(cur).strip():
        parts.append(''.join(cur))
    kept = []
    names = []
    for p in parts:
        nm = p.strip().split(':', 1)[0].strip()
        names.append(nm)
        if nm in fields:
            kept.append('    ' + p.strip() + ',')
    for f in fields:
        if f not in names:
            raise ExtractError("anchor lost: field %s" % f)
    dropped = [n for n in names if n not in fields]
    return nf[:ob + 1] + '\n' + '\n'.join(kept) + '\n' + nf[cb:], dropped


# ----------------------------------------------------------------------------- unit files

def parse_unit(path):
    lines = open(path).read().split('\n')
    unit = {'id': None, 'props': [], 'expect': None, 'twins': [], 'trusted': {}, 'segments': [], 'path': path, 'oracles': {}}
    i = 0
    cur_text = []

    def flush():
        if cur_text:
            unit['segments'].append(('text', '\n'.join(cur_text) + '\n'))
            cur_text.clear()
    while i < len(lines):
        ln = lines[i]
        s = ln.strip()
        if s.startswith('//@unit'):
            toks = s.split()
            unit['id'] = toks[1]
            for t in toks[2:]:
                if t.startswith('props='):
                    unit['props'] = t[6:].split(',')
                elif t.startswith('expect='):
                    unit['expect'] = int(t[7:])
            i += 1
        elif s.startswith('//@twin'):
            parts = [x.strip() for x in s[len('//@twin'):].split('|')]
            unit['twins'].append({'name': parts[0], 'old': parts[1], 'new': parts[2]})
            i += 1
        elif s.startswith('//@oracle'):
            fns, orc = s[len('//@oracle'):].split('=>')
            unit['oracles'][fns.strip().replace(' ', '')] = orc.strip()
            i += 1
        elif s.startswith('//@trusted'):
            for t in s.split()[1:]:
                k, v = t.split('=')
                unit['trusted'][k] = int(v)
            i += 1
        elif s.startswith('//@include'):
            flush()
            inc = os.path.join(os.path.dirname(path), 'include', s.split()[1])
            unit['segments'].append(('text', open(inc).read()))
            i += 1
        elif s.startswith('//@extract'):
            flush()
            is_block = s.startswith('//@extractblock')
            arg = s[len('//@extractblock' if is_block else '//@extract'):].strip()
            relpath, selector = [x.strip() for x in arg.split('|', 1)]
            if is_block:
                selector = 'BLOCK ' + selector
            directives = []
            i += 1
            cur = None
            while i < len(lines):
                s2 = lines[i].strip()
                if s2.startswith('//@end'):
                    break
                if s2.startswith('//@'):
                    mm = re.match(r'//@(\w+)\s*(.*)', s2)
                    cur = [mm.group(1), mm.group(2), '']
                    directives.append(cur)
                else:
                    if cur is None:
                        if s2:
                            raise ExtractError("%s:%d text before directive in extract block" % (path, i + 1))
                    else:
                        cur[2] += lines[i] + '\n'
                i += 1
            else:
                raise ExtractError("%s: unterminated extract" % path)
            i += 1
            unit['segments'].append(('extract', relpath, selector, [tuple(d) for d in directives]))
        else:
            cur_text.append(ln)
            i += 1
    flush()
    if unit['id'] is None:
        raise ExtractError("%s: missing //@unit" % path)
    return unit


def generate(unit, repo):
    """Returns (text, info).  info: functions, drops, rewrites, erasure ok."""
    out = []
    info = {'functions': [], 'extraction_drops': [], 'rewrites': [], 'erasure_checked': 0}
    for seg in unit['segments']:
        if seg[0] == 'text':
            out.append(seg[1])
            continue
        _, relpath, selector, directives = seg
        fpath = os.path.join(repo, relpath)
        if not os.path.exists(fpath):
            raise ExtractError("anchor lost: file %s" % relpath)
        src = open(fpath).read()
        m = rl.mask(src)
        if selector.startswith('BLOCK '):
            gen, binfo = generate_block(src, m, selector[6:], directives)
            tag = '%s | %s' % (relpath, selector)
            out.append('/*@beginblock %s*/\n' % tag + gen + '/*@end*/\n')
            info['erasure_checked'] += 1
            info['functions'].append({'item': 'statement block in ' + binfo['fn'] + ': ' + binfo['first'], 'file': relpath, 'line': binfo['line']})
            info['extraction_drops'].append({'item': tag, 'E11_block': 'only the statements between the anchors are verified; the enclosing function %s is dropped' % binfo['fn']})
            for r in binfo.get('rewrites', []):
                r['item'] = tag
                info['rewrites'].append(r)
            continue
        s, e = locate(src, m, selector)
        line = src.count('\n', 0, s) + 1
        item = src[s:e]
        dnames = [d[0] for d in directives]
        nf, drops = normal_form(item, allow_cfg='allowcfg' in dnames, keep_pub='keeppub' in dnames)
        kind = 'fn' if ' fn ' in (' ' + selector) else selector.split()[0]
        narrowed = None
        for d in directives:
            if d[0] == 'fields':
                fields = [x.strip() for x in d[1].split(',')]
                nf_full = nf
                nf, dropped = narrow_struct(nf, fields)
                narrowed = dropped
        gen, rewrites = annotate(nf, directives, kind)
        # erasure check against a *fresh* normal form of the source
        fresh, _ = normal_form(src[s:e], allow_cfg='allowcfg' in dnames, keep_pub='keeppub' in dnames)
        if narrowed is not None:
            fresh, _d = narrow_struct(fresh, fields)
        if squash(erase(gen)) != squash(fresh):
            raise ExtractError("erasure check failed for %s | %s" % (relpath, selector))
        info['erasure_checked'] += 1
        tag = '%s | %s' % (relpath, selector)
        out.append('/*@begin %s*/\n' % tag + gen + '/*@end*/\n')
        info['functions'].append({'item': selector, 'file': relpath, 'line': line})
        d2 = dict(drops)
        d2['item'] = tag
        if narrowed is not None:
            d2['struct_fields_dropped'] = narrowed
        info['extraction_drops'].append(d2)
        for r in rewrites:
            r['item'] = tag
            info['rewrites'].append(r)
    return ''.join(out), info


def generate_block(src, m, selector, directives):
    """E11: selector = '<fn selector> | K | START_LITERAL [| N]': N statements (default 1) starting at the K-th
    statement that begins with START_LITERAL inside the function.  Directives: blocksig (header), sig, top."""
    parts = [x.strip() for x in selector.split('|')]
    fsel, k, lit = parts[0], int(parts[1]), parts[2]
    count = int(parts[3]) if len(parts) > 3 else 1
    s, e = locate(src, m, fsel)
    nf, _ = normal_form(src[s:e])
    nm = rl.mask(nf)
    _, ob, cb = _fn_parts(nf, nm)
    j = _stmt_anchor(nf, nm, lit, k, ob + 1, cb)
    end = j
    for _ in range(count):
        while nf[end] in ' \t\n':
            end += 1
        end = _stmt_end(nf, nm, end, cb)
    block = nf[j:end]
    header = sig = top = attrs = ''
    inner = []
    for (name, arg, text) in directives:
        if name == 'blocksig':
            header = arg.strip()
        elif name == 'sig':
            check_ghost(text, 'sig')
            sig = text
        elif name == 'top':
            check_ghost(text, 'top')
            top = text
        elif name == 'tail':
            pass
        elif name == 'attr':
            if not re.match(r'^#\[verifier::(loop_isolation\(false\)|allow_complex_invariants|spinoff_prover|rlimit\(\d+\))\]$', arg.strip()):
                raise ExtractError("attr not allowed: %s" % arg)
            attrs += arg.strip() + '\n'
        elif name in ('loop', 'refpat', 'before', 'after', 'rewrite', 'rewriteall', 'rewritere', 'rewritereall', 'ascribe'):
            inner.append((name, arg, text))
        else:
            raise ExtractError("directive %s not allowed in extractblock" % name)
    block_src = block
    rewrites = []
    if inner:
        # the statements are annotated exactly like a function body (loop invariants, statement hints, recorded rewrites)
        pre = 'fn __blk() {'
        ann, rewrites = annotate(pre + block + '}', inner, 'fn')
        if not (ann.startswith(pre) and ann.endswith('}')):
            raise ExtractError("block annotation escaped the block")
        block = ann[len(pre):-1]
    if not re.match(r'^fn \w+(<[^()]*>)?\(.*\)( -> .*)?$', header):
        raise ExtractError("extractblock needs //@blocksig fn name(params) [-> ret]")
    tail = ''
    for (name, arg, text) in directives:
        if name == 'tail':
            tail = arg.strip()
    gen = '/*@+*/' + attrs + header + '\n' + sig.rstrip() + '\n{\n' + top + '/*@-*/' + block + '/*@+*/\n' + tail + '\n}\n/*@-*/'
    if squash(erase(gen)) != squash(block_src):
        raise ExtractError("erasure check failed for block")
    line = src.count('\n', 0, s) + 1
    return gen, {'fn': fsel, 'first': lit, 'line': line, 'rewrites': rewrites}


def verify_erasure(gen_text, unit, repo):
    """Independent pass over the *generated file*: every /*@begin*/…/*@end*/ region,
    erased, must equal the normal form of the current source item."""
    n = 0
    for mm in re.finditer(r'/\*@beginblock (.*?)\*/\n(.*?)/\*@end\*/', gen_text, flags=re.S):
        tag, region = mm.group(1), mm.group(2)
        relpath, selector = [x.strip() for x in tag.split('|', 1)]
        parts = [x.strip() for x in selector[6:].split('|')]
        src = open(os.path.join(repo, relpath)).read()
        m = rl.mask(src)
        s, e = locate(src, m, parts[0])
        fresh, _ = normal_form(src[s:e])
        if squash(erase(region)) not in squash(fresh) or len(squash(erase(region))) == 0:
            raise ExtractError("erasure check failed (generated file) for block %s" % tag)
        n += 1
    for mm in re.finditer(r'/\*@begin (.*?)\*/\n(.*?)/\*@end\*/', gen_text, flags=re.S):
        tag, region = mm.group(1), mm.group(2)
        relpath, selector = [x.strip() for x in tag.split('|', 1)]
        src = open(os.path.join(repo, relpath)).read()
        m = rl.mask(src)
        s, e = locate(src, m, selector)
        seg = [sg for sg in unit['segments'] if sg[0] == 'extract' and sg[1] == relpath and sg[2] == selector][0]
        dn = [d[0] for d in seg[3]]
        fresh, _ = normal_form(src[s:e], allow_cfg='allowcfg' in dn, keep_pub='keeppub' in dn)
        for d in seg[3]:
            if d[0] == 'fields':
                fresh, _x = narrow_struct(fresh, [x.strip() for x in d[1].split(',')])
        if squash(erase(region)) != squash(fresh):
            raise ExtractError("erasure check failed (generated file) for %s" % tag)
        n += 1
    return n


TRUST_PATTERNS = {
    'external_body': r'external_body',
    'assume_specification': r'assume_specification',
    'assume': r'\bassume\s*\(',
    'admit': r'\badmit\s*\(',
    'uninterp': r'\buninterp\b',
    'external_type_specification': r'external_type_specification',
    'axiom': r'\baxiom\b',
}


def scan_trusted(gen_text):
    m = rl.mask(gen_text)
    found = {}
    items = []
    for k, pat in TRUST_PATTERNS.items():
        for mm in re.finditer(pat, gen_text):
            if m[mm.start()] != 'c':
                continue
            found[k] = found.get(k, 0) + 1
            ln = gen_text.count('\n', 0, mm.start())
            ctx = gen_text.split('\n')[ln:ln + 3]
            items.append('%s: %s' % (k, re.sub(r'\s+', ' ', ' '.join(ctx))[:160]))
    return found, items


if __name__ == '__main__':
    u = parse_unit(sys.argv[1])
    text, info = generate(u, sys.argv[2] if len(sys.argv) > 2 else '/repo')
    sys.stdout.write(text)
    sys.stderr.write(repr(info) + '\n')
