"""Replay files.  A VIOLATION always carries a replay file naming the failed obligation and
the verifier output; when a concrete failing input is available (Kani counterexample
played back natively against the real crate, or a native oracle of the replay crate
finding one) it is included, otherwise the VIOLATION line ends no-failing-input-found."""
import json
import os
import re
import shutil
import subprocess

import krun

VERIF = os.path.dirname(os.path.dirname(os.path.abspath(__file__)))
_built = {}


def _safe(s):
    return re.sub(r'[^A-Za-z0-9_.-]+', '_', s)[:80]


def build_replay(repo, work):
    key = (repo, work)
    if key in _built:
        return _built[key]
    rdir = os.path.join(work, 'replay')
    shutil.rmtree(rdir, ignore_errors=True)
    shutil.copytree(os.path.join(VERIF, 'replay'), rdir)
    t = open(os.path.join(rdir, 'Cargo.toml.in')).read().replace('@REPO@', repo)
    open(os.path.join(rdir, 'Cargo.toml'), 'w').write(t)
    # the C API crate builds only as cdylib/staticlib: compile its source into the replay binary as a module
    open(os.path.join(rdir, 'src', 'storm_mod.rs'), 'w').write(
        '#[allow(dead_code, unused, unsafe_op_in_unsafe_fn, clippy::all, unexpected_cfgs)]\n#[path = "%s/ffi/storm-ffi/src/lib.rs"]\npub mod storm;\n' % repo)
    if os.path.exists(os.path.join(repo, 'Cargo.lock')):
        shutil.copy(os.path.join(repo, 'Cargo.lock'), os.path.join(rdir, 'Cargo.lock'))
    env = dict(os.environ)
    env['CARGO_NET_OFFLINE'] = 'true'
    shared = os.path.join(krun.WORK, '_replay_target')  # one build cache for all properties (cargo locks it)
    env['CARGO_TARGET_DIR'] = shared
    env.pop('RUSTUP_TOOLCHAIN', None)
    p = subprocess.run(['cargo', 'build', '--offline', '--release', '-q'], cwd=rdir, env=env, capture_output=True, text=True)
    binp0 = os.path.join(shared, 'release', 'wrv-replay')
    binp = os.path.join(work, 'wrv-replay-bin')
    if p.returncode == 0 and os.path.exists(binp0):
        shutil.copy(binp0, binp)
    ok = p.returncode == 0 and os.path.exists(binp)
    _built[key] = (binp if ok else None, p.stderr[-800:])
    return _built[key]


_cli = {}


def build_cli(repo):
    """The warcraft-rs binary of the tree under test (C11 end-to-end oracle only; several minutes cold, cached afterwards)."""
    if repo in _cli:
        return _cli[repo]
    env = dict(os.environ)
    env['CARGO_NET_OFFLINE'] = 'true'
    tgt = os.path.join(krun.WORK, '_cli_target')
    env['CARGO_TARGET_DIR'] = tgt
    env.pop('RUSTUP_TOOLCHAIN', None)
    p = subprocess.run(['cargo', 'build', '--offline', '-q', '-p', 'warcraft-rs', '--bin', 'warcraft-rs'], cwd=repo, env=env, capture_output=True, text=True)
    b = os.path.join(tgt, 'debug', 'warcraft-rs')
    _cli[repo] = b if p.returncode == 0 and os.path.exists(b) else None
    return _cli[repo]


def run_oracle(oracle, seed, repo, work, args=(), timeout=300):
    binp, err = build_replay(repo, work)
    if not binp:
        return {'oracle': oracle, 'error': 'replay crate did not build against the tree under test: ' + err}
    if oracle == 'cli_extract' and not args:
        cli = build_cli(repo)
        if not cli:
            return {'oracle': oracle, 'error': 'the warcraft-rs binary of the tree under test did not build'}
        args = (cli,)
    try:
        p = subprocess.run([binp, oracle, str(seed)] + list(args), capture_output=True, text=True, timeout=timeout)
    except subprocess.TimeoutExpired:
        return {'oracle': oracle, 'failing_input': None, 'error': 'oracle timed out after %ds' % timeout, 'timed_out': True}
    try:
        return json.loads(p.stdout.strip().split('\n')[-1])
    except Exception:
        return {'oracle': oracle, 'error': 'oracle crashed: rc=%s %s' % (p.returncode, (p.stderr or p.stdout)[-300:])}


def verus_replay(prop, unit_res, fl, repo, work, seed, preset=None):
    oracle = None
    for fns, orc in unit_res.get('oracles', {}).items():
        if fl['function'] in fns.split(','):
            oracle = orc
    rep = {'property': prop, 'unit': unit_res.get('unit'), 'failed_obligation': fl['obligation'], 'clause': fl['clause'],
           'backend': 'verus+z3', 'generated_file': unit_res.get('generated'), 'generated_line': fl['line'],
           'verifier_output': fl['verifier_output'], 'failing_input': None,
           'rerun': 'cd /verif && ./check %s' % prop}
    if oracle or preset:
        o = preset or run_oracle(oracle, seed, repo, work)
        rep['native_oracle'] = o
        if o.get('failing_input'):
            rep['failing_input'] = o['failing_input']
            rep['observed'] = o.get('observed')
            rep['expected'] = o.get('expected')
    path = os.path.join(VERIF, 'replays', '%s-%s.json' % (prop, _safe(fl['obligation'])))
    if rep['failing_input'] is None:
        rep['note'] = 'no-failing-input-found: Verus gives no model; the native oracle (if any) found no failing input'
    json.dump(rep, open(path, 'w'), indent=1)
    return {'path': path, 'has_input': rep['failing_input'] is not None}


def kani_replay(prop, hm, r, base, dst, repo=None, work=None, seed=0):
    rep = {'property': prop, 'unit': hm.get('unit'), 'failed_obligation': '%s/%s' % (hm.get('unit'), hm['name']),
           'backend': 'kani+cbmc', 'failed_checks': r['failed_checks'], 'harness': hm['name'], 'kind': hm['kind'],
           'bound': hm.get('bound'), 'failing_input': None, 'rerun': 'cd /verif && ./check %s' % prop}
    try:
        pb = krun.playback(base, dst, hm['crate'], hm['crate_dir'], hm)
        rep['playback'] = pb
        if pb['concrete_values']:
            rep['failing_input'] = pb['concrete_values'][0]
        rep['reproduced_on_real_code'] = bool(pb.get('native_playback') and isinstance(pb['native_playback'], dict)
                                              and pb['native_playback'].get('reproduced_on_real_code'))
    except Exception as e:  # playback trouble must not hide the violation
        rep['playback_error'] = repr(e)
    path = os.path.join(VERIF, 'replays', '%s-%s.json' % (prop, _safe(hm['name'])))
    if rep['failing_input'] is None and hm.get('oracle') and repo and work:
        o = run_oracle(hm['oracle'], seed, repo, work)
        rep['native_oracle'] = o
        if o.get('failing_input'):
            rep['failing_input'] = o['failing_input']
            rep['observed'] = o.get('observed')
            rep['expected'] = o.get('expected')
    if rep['failing_input'] is None:
        rep['note'] = 'no-failing-input-found: CBMC refuted the obligation but no concrete playback was produced'
    json.dump(rep, open(path, 'w'), indent=1)
    return {'path': path, 'has_input': rep['failing_input'] is not None}


def native_confirm(finding, repo, work):
    """For replay-only known findings: (True/False/None, detail)."""
    o = run_oracle(finding['oracle'], 0, repo, work, finding.get('oracle_args', []), timeout=finding.get('oracle_timeout', 120))
    if 'error' in o and not o.get('timed_out'):
        return None, o['error']
    if finding.get('confirm_by') == 'timeout':
        return (True, 'oracle did not terminate') if o.get('timed_out') else (False, 'terminated')
    if o.get('failing_input'):
        return True, o['failing_input']
    return False, 'oracle found no failing input'
