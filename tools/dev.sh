#!/bin/bash
# dev helper: generate a unit from /repo (or $REPO) and run verus on it
u=$1; shift
mkdir -p /tmp/vt
python3 /verif/tools/extract.py ${UNITDIR:-/verif/units}/$u.vrs ${REPO:-/repo} > /tmp/vt/$u.rs 2>/tmp/vt/$u.info || { tail -3 /tmp/vt/$u.info; exit 2; }
cd /tmp/vt && verus $u.rs --triggers-mode silent "$@" 2>&1 | grep -v '^\s*$' | head -${LINES_MAX:-70}
