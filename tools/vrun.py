"""Run one Verus unit: generate from /repo, erasure check, trusted-construct scan,
verify, must-fail twins.  Returns a dict; never raises for verifier verdicts."""
import json
import os
import re
import subprocess
import time

import extract as ex

VERUS = 'verus'
DEFINITE = (
    'postcondition not satisfied', 'precondition not met', 'precondition not satisfied', 'assertion failed',
    'invariant not satisfied', 'possible arithmetic underflow/overflow', 'index in bounds', 'possible division by zero',
    'decreases not satisfied', 'failed this postcondition', 'loop invariant', 'could not prove termination',
    'possible bit shift underflow/overflow', 'recommendation not met', 'assertion failure', 'unable to prove',
    'cannot show', 'might not', 'not satisfied', 'failed',
)
UNDECIDED = ('Resource limit (rlimit) exceeded', 'rlimit', 'timed out', 'Verus Internal Error', 'not supported',
             'unsupported', 'error[E', 'cannot find', 'mismatched types', 'expected', 'The verifier does not yet support')


def parse_errors(stderr):
    """Split the human-readable diagnostics into (message, file:line, snippet)."""
    errs = []
    blocks = re.split(r'\n(?=error|warning|note)', '\n' + stderr)
    for b in blocks:
        b = b.strip('\n')
        if not b.startswith('error'):
            continue
        first = b.split('\n', 1)[0]
        if first.startswith('error: aborting due to'):
            continue
        loc = re.search(r'-->\s*(\S+):(\d+):(\d+)', b)
        snippet = ''
        mm = re.search(r'^\s*\d+\s*\|\s?(.*)$', b, flags=re.M)
        if mm:
            snippet = mm.group(1).strip()
        errs.append({'message': first[len('error'):].lstrip(': ').strip(), 'line': int(loc.group(2)) if loc else None,
                     'snippet': re.sub(r'/\*@[^*]*\*/', '', snippet)[:200], 'raw': b[:1500]})
    return errs


def classify(errs, results):
    """-> 'ok' | 'fail' | 'undecided'"""
    if results and results.get('success') and not errs:
        return 'ok'
    if not errs:
        return 'undecided'
    kinds = []
    for e in errs:
        msg = e['message']
        if any(u in msg for u in UNDECIDED) and 'precondition' not in msg and 'postcondition' not in msg:
            kinds.append('undecided')
        elif any(d in msg for d in DEFINITE):
            kinds.append('fail')
        else:
            kinds.append('undecided')
    if results is None or results.get('encountered-vir-error'):
        return 'undecided'
    if 'fail' in kinds:
        return 'fail'
    return 'undecided'


def fn_at_line(gen_text, line):
    """Name of the function (exec/proof/spec) enclosing a 1-based line of the generated file."""
    lines = gen_text.split('\n')
    for i in range(min(line, len(lines)) - 1, -1, -1):
        mm = re.search(r'\bfn\s+([A-Za-z_][A-Za-z0-9_]*)', re.sub(r'/\*@[^*]*\*/', '', lines[i]))
        if mm:
            return mm.group(1)
        mm = re.search(r'\bconst\s+([A-Z_][A-Z0-9_]*)', lines[i])
        if mm:
            return mm.group(1)
    return '?'


def run_verus(path, workdir, rlimit, timeout):
    t0 = time.time()
    try:
        p = subprocess.run([VERUS, os.path.basename(path), '--output-json', '--time', '--triggers-mode', 'silent',
                            '--rlimit', str(rlimit), '--multiple-errors', '5', '--num-threads', '4'],
                           cwd=workdir, capture_output=True, text=True, timeout=timeout)
    except subprocess.TimeoutExpired:
        return None, [{'message': 'timed out after %ds' % timeout, 'line': None, 'snippet': '', 'raw': ''}], time.time() - t0
    results = None
    breakdown = []
    try:
        j = json.loads(p.stdout)
        results = j.get('verification-results')
        for mod in j.get('times-ms', {}).get('smt', {}).get('smt-run-module-times', []):
            for f in mod.get('function-breakdown', []):
                breakdown.append({'function': f['function'].split('::', 1)[-1], 'mode': f.get('mode:'),
                                  'ms': f.get('time'), 'ok': f.get('success')})
        if results is not None:
            results['breakdown'] = breakdown
            results['smt_ms'] = j.get('times-ms', {}).get('smt', {}).get('smt-run')
    except Exception:
        pass
    return results, parse_errors(p.stderr), time.time() - t0


def run_unit(unit_path, repo, workdir, tier='quick', twins=True):
    r = {'unit_file': os.path.basename(unit_path), 'status': 'undecided', 'obligations': [], 'failed': [],
         'reason': None, 'twins': [], 'wall_s': 0.0}
    t0 = time.time()
    try:
        unit = ex.parse_unit(unit_path)
        r['unit'] = unit['id']
        r['props'] = unit['props']
        r['oracles'] = unit['oracles']
        gen, info = ex.generate(unit, repo)
        ex.verify_erasure(gen, unit, repo)
    except ex.ExtractError as e:
        r['reason'] = 'extract: %s' % e
        r['wall_s'] = time.time() - t0
        return r
    except Exception as e:  # lexer trouble etc.
        r['reason'] = 'extractor crash: %r' % e
        r['wall_s'] = time.time() - t0
        return r
    r.update({'functions': info['functions'], 'extraction_drops': info['extraction_drops'],
              'rewrites': info['rewrites'], 'erasure_checked': info['erasure_checked']})
    found, items = ex.scan_trusted(gen)
    r['trusted_found'] = found
    r['trusted_items'] = items
    if found != {k: v for k, v in unit['trusted'].items() if v}:
        r['reason'] = 'trusted-construct scan %r differs from declared %r' % (found, unit['trusted'])
        r['wall_s'] = time.time() - t0
        return r
    os.makedirs(workdir, exist_ok=True)
    name = os.path.splitext(os.path.basename(unit_path))[0]
    gpath = os.path.join(workdir, name + '.rs')
    open(gpath, 'w').write(gen)
    r['generated'] = gpath
    rlimit = 50 if tier == 'quick' else 100
    results, errs, wall = run_verus(gpath, workdir, rlimit, 600 if tier == 'quick' else 1800)
    r['errors'] = errs
    verdict = classify(errs, results)
    r['status'] = verdict
    if results:
        r['verified'] = results.get('verified', 0)
        r['smt_ms'] = results.get('smt_ms')
        for f in results.get('breakdown', []):
            if f['mode'] in ('exec', 'proof'):
                r['obligations'].append({'name': '%s/%s' % (unit['id'], f['function']), 'backend': 'verus+z3',
                                         'mode': f['mode'], 'ms': f['ms'], 'verdict': 'discharged' if f['ok'] else 'failed'})
    if verdict == 'fail':
        for e in errs:
            fn = fn_at_line(gen, e['line']) if e['line'] else '?'
            r['failed'].append({'obligation': '%s/%s: %s' % (unit['id'], fn, e['message']), 'function': fn,
                                'clause': e['snippet'], 'line': e['line'], 'verifier_output': e['raw']})
    elif verdict == 'undecided':
        r['reason'] = '; '.join(e['message'] for e in errs)[:400] or 'verus produced no result'
    elif unit['expect'] is not None and r.get('verified') != unit['expect']:
        r['status'] = 'undecided'
        r['reason'] = 'vacuity guard: verified=%s but unit declares expect=%s' % (r.get('verified'), unit['expect'])
    # must-fail twins
    if verdict == 'ok' and twins and r['status'] == 'ok':
        for tw in unit['twins']:
            if gen.count(tw['old']) < 1:
                r['status'] = 'undecided'
                r['reason'] = 'twin %s: pattern lost' % tw['name']
                break
            tgen = gen.replace(tw['old'], tw['new'])
            tpath = os.path.join(workdir, '%s__twin_%s.rs' % (name, tw['name']))
            open(tpath, 'w').write(tgen)
            tres, terrs, _ = run_verus(tpath, workdir, rlimit, 600)
            tv = classify(terrs, tres)
            r['twins'].append({'name': tw['name'], 'verdict': tv})
            if tv == 'ok':
                r['status'] = 'undecided'
                r['reason'] = 'vacuity guard: must-fail twin %s verified' % tw['name']
                break
    r['wall_s'] = round(time.time() - t0, 2)
    return r
