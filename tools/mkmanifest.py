#!/usr/bin/env python3
"""Regenerate /verif/MANIFEST.json from registry.json (claimed properties) + na.json (not applicable)."""
import json, os, subprocess
V = os.path.dirname(os.path.dirname(os.path.abspath(__file__)))
reg = json.load(open(os.path.join(V, 'registry.json')))
na = json.load(open(os.path.join(V, 'na.json')))
commits = subprocess.run(['git', '-C', '/repo', 'log', '--format=%h %s'], capture_output=True, text=True).stdout.split('\n')
hook_commits = [c.split()[0] for c in commits if 'verif hook' in c]
checks = []
for pid in sorted(reg):
    m = reg[pid]
    checks.append({
        'property_id': pid,
        'quick_cmd': './check %s --tier quick' % pid,
        'thorough_cmd': './check %s --tier thorough' % pid,
        'evidence_file': 'evidence/%s.json' % pid,
        'replay_cmd_template': './check --replay {path}',
        'engine': 'contracts',
        'level_claimed': {'category': m.get('level', 'proof') if m.get('level') in ('proof', 'other') else 'other',
                          'text': m['level_text'], 'design_ref': m.get('design_ref', 'DESIGN.md §4 ' + pid)},
        'level_note': m['level_note'],
        'technique': m['technique'],
    })
man = {
    'version': 1,
    'setup_cmd': 'python3 tools/selfcheck.py',
    'hooks': {
        'guard': 'cfg(kani)',
        'enable': 'cargo kani sets --cfg kani; the check copies /verif/kani/<crate>/verif_kani.rs into a scratch copy of /repo (the crate roots carry `#[cfg(kani)] mod verif_kani;`). Verus units need no hook: functions are extracted from the working tree on every run.',
        'baseline_off_cmd': 'cd /repo && cargo test --workspace --no-fail-fast --offline',
        'source_commits': hook_commits,
        'add_only': True,
    },
    'engines': [{'name': 'contracts', 'path': 'check', 'serves_properties': sorted(reg),
                 'kind_free_text': 'contract-based deductive verification: Verus 0.2026.09.13 on functions extracted mechanically from /repo on every run (erasure-checked), Kani 0.68 harnesses/contracts compiled into the real crates; native replay crate for counterexamples'}],
    'checks': checks,
    'notes': 'exit 0 = all obligations discharged (known findings printed as KNOWN-FINDING); exit 1 = VIOLATION with replay file; exit 2 = undecided (anchor lost, tool limit) and never an alarm. Bounded stand-ins are listed separately in evidence and never counted as discharged proof obligations.',
    'not_applicable': [{'property_id': k, 'reason': v} for k, v in sorted(na.items()) if k not in reg],
}
json.dump(man, open(os.path.join(V, 'MANIFEST.json'), 'w'), indent=1)
print('MANIFEST.json: %d checks, %d not applicable' % (len(checks), len(man['not_applicable'])))
