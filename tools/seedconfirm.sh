#!/bin/bash
# seedconfirm.sh <PROP> <letter> <crate> <crate_dir>   - confirm a sub-agent's seeded change in its scratch worktree
# 1. existing tests of the crate pass with the patch  2. demo fails with the patch  3. demo passes without
P=$1; L=$2; CRATE=$3; CDIR=$4
W=/tmp/seed/$P; O=$W/out
cd $W || exit 2
export CARGO_TARGET_DIR=$W/target CARGO_NET_OFFLINE=true
git checkout -q -- . ; rm -f $CDIR/tests/seed_demo_*.rs
git apply --check $O/${L}_patch.diff || { echo "PATCH DOES NOT APPLY"; exit 2; }
git apply $O/${L}_patch.diff
echo "== existing tests with patch"
cargo test -p $CRATE --offline --no-fail-fast 2>&1 | grep -E "^test result|FAILED|error(\[|:)" | sort | uniq -c | head -8
cp $O/${L}_demo.rs $CDIR/tests/seed_demo_$L.rs
echo "== demo with patch (expect FAILED)"
timeout 600 cargo test -p $CRATE --offline --test seed_demo_$L 2>&1 | grep -E "^test result|panicked|error(\[|:)" | head -5
git checkout -q -- .
echo "== demo without patch (expect ok)"
timeout 600 cargo test -p $CRATE --offline --test seed_demo_$L 2>&1 | grep -E "^test result|panicked|error(\[|:)" | head -5
rm -f $CDIR/tests/seed_demo_$L.rs
