#!/usr/bin/env python3
"""dev helper: kdev.py <crate> <harness-file-relative-to-/verif> [harness names...] - run Kani harnesses from one file."""
import sys, os, json
sys.path.insert(0, os.path.dirname(__file__))
import krun
crate, hfile = sys.argv[1], sys.argv[2]
names = set(sys.argv[3:])
hook = [h for h in krun.load_hooks() if h['harness_src'] == hfile][0]
hs = [h for h in krun.parse_harnesses(os.path.join(krun.VERIF, hfile)).values() if not names or h['name'] in names]
for h in hs:
    if hook.get('mod_path'):
        h['path'] = hook['mod_path'] + '::' + h['name']
base, dst, applied = krun.prepare_scratch(os.environ.get('TAG', 'dev'), os.environ.get('REPO', '/repo'))
res = krun.run_kani(base, dst, crate, hs, jobs=int(os.environ.get('JOBS', '8')))
for n, r in res.items():
    print(n, r['status'], r.get('reason'), r.get('time_s'), 'checks=%s' % r.get('checks'))
    for f in (r.get('failed_checks') or [])[:6]:
        print('   ', f)
krun.cleanup_scratch(base)
