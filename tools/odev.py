#!/usr/bin/env python3
"""dev helper: odev.py <oracle> [seed] [args..]  (REPO env overrides /repo)"""
import sys, os, json
sys.path.insert(0, os.path.dirname(__file__))
import replay as rp
repo = os.environ.get('REPO', '/repo')
work = '/var/tmp/wrv/odev'
os.makedirs(work, exist_ok=True)
o = rp.run_oracle(sys.argv[1], int(sys.argv[2]) if len(sys.argv) > 2 else 0, repo, work, sys.argv[3:])
print(json.dumps(o, indent=1)[:3000])
