#!/usr/bin/env python3
"""seedsave.py <PROP> <letter> <needs> <caught_by>  - keep a confirmed seeded change under /verif/seeded/<PROP>-<letter>/"""
import json, os, shutil, sys
prop, L, needs, caught = sys.argv[1:5]
# optional: source directory name under /tmp/seed and source letter (round-2 seeds live in /tmp/seed/R2<PROP>/out)
srcdir = sys.argv[5] if len(sys.argv) > 5 else prop
SL = sys.argv[6] if len(sys.argv) > 6 else L
src = '/tmp/seed/%s/out' % srcdir
dst = '/verif/seeded/%s-%s' % (prop, L)
os.makedirs(dst, exist_ok=True)
shutil.copy('%s/%s_patch.diff' % (src, SL), dst + '/patch.diff')
shutil.copy('%s/%s_demo.rs' % (src, SL), dst + '/demo.rs')
meta_txt = open('%s/%s_meta.txt' % (src, SL)).read()
json.dump({'property': prop, 'needs_to_manifest': needs, 'agent_notes': meta_txt,
           'confirmed_by': 'tools/seedconfirm.sh %s %s (existing crate tests pass with patch; demo fails with patch, passes without)' % (srcdir, SL),
           'check_result': caught}, open(dst + '/meta.json', 'w'), indent=1)
print('saved', dst)
