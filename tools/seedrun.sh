#!/bin/bash
# seedrun.sh <patch.diff> <PROP> [PROP...]  - apply a seeded change to /repo, run the checks, revert.
PATCH=$1; shift
cd /repo && git diff --quiet || { echo "/repo not clean"; exit 2; }
git -C /repo apply "$PATCH" || exit 2
for p in "$@"; do
  ( cd /verif && VERIF_SCRATCH_EVIDENCE=1 ./check $p --tier ${TIER:-quick} 2>&1 | tail -8; echo "rc=${PIPESTATUS[0]}" )
done
git -C /repo checkout -- .
