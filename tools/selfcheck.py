#!/usr/bin/env python3
"""setup_cmd: verify the tool chain is present and the extractor parses every unit (offline, no build)."""
import glob, os, shutil, sys
V = os.path.dirname(os.path.dirname(os.path.abspath(__file__)))
sys.path.insert(0, os.path.join(V, 'tools'))
import extract as ex
for t in ('verus', 'cargo', 'rsync'):
    if not shutil.which(t):
        print('missing tool', t); sys.exit(1)
n = 0
for p in glob.glob(os.path.join(V, 'units', '*.vrs')):
    ex.parse_unit(p); n += 1
os.makedirs(os.path.join(V, 'evidence'), exist_ok=True)
os.makedirs(os.path.join(V, 'replays'), exist_ok=True)
print('ok: %d verus units parse' % n)
