#!/usr/bin/env python3
"""Static per-property texts (level, technique, trusted base, what is NOT under contract).  Writes registry.json."""
import json, os
V = os.path.dirname(os.path.dirname(os.path.abspath(__file__)))
COMMON_TB = []
R = {}

def prop(pid, level, technique, text, note, unverified, assumptions=(), explanation=''):
    R[pid] = {'level': level, 'technique': technique, 'level_text': text, 'level_note': note,
              'unverified_on_path': list(unverified), 'assumptions': list(assumptions), 'trusted_base': COMMON_TB,
              'explanation': explanation}

prop('C01', 'proof',
     'Verus contracts on mechanically extracted builder/reader hash-table functions + map lemmas; Kani complete harnesses for size/ratio arithmetic',
     'Partial, by named mechanism. Proved unbounded (Verus): ArchiveBuilder::add_to_hash_table writes into the first never-used slot of the probe path and nothing else; HashTable::find_file equals the spec probe; lemmas: insert-then-find, frame (other keys stay findable), absent-not-found, found-entry-matches. With U04 (hash invariance under case/slash) every spelling resolves to the same entry. Kani complete: sector size / power-of-two arithmetic, table entry decoders, read-side ratio validators accept compress() output outside the recorded class F2.',
     'End-to-end build->open needs File I/O on both sides and is NOT under contract: Archive::open/load_tables/read_file/read_sectored_file/list, write_archive*, write_header, write_file sector layout, HET/BET builders, listfile/attributes generation. hash_string is an uninterpreted function in this unit (its equality with the MPQ hash is C04). Known finding F2 (over-compressible payloads rejected on read).',
     ['archive.rs: Archive::open, load_tables, read_file, read_sectored_file, list, find_file',
      'builder.rs: build, write_archive, write_file (sector layout, offset table, per-sector keys), write_header, write_hash_table, write_block_table, create_het_table*, create_bet_table*, write_bit_entry',
      'tables/het.rs, tables/bet.rs (HET/BET lookup)', 'special_files/listfile.rs, attributes.rs', 'header.rs'],
     ['hash collisions: a never-added name is "not found" only if its (name_a,name_b) pair differs from every stored pair (MPQ cannot tell such names apart by design)'])

prop('C03', 'proof',
     'Verus contracts on extracted compress / sparse / RLE code (spec-function equality, inverse lemma by induction); Kani complete harness for validator acceptance',
     'Proved unbounded (Verus): compress() never returns more bytes than the input, stores raw exactly when codec output + 1 >= input length, otherwise prefixes the method byte (for every codec, the codecs being external); sparse::decompress equals a spec decoder for every input and is bounded by expected_size; sparse::compress output decodes (spec) to the input and carries the length header, hence decompress(compress(d)) == d for all d; rle::decompress is total and returns exactly decompressed_size bytes. Kani complete (full u32/u8 domain): the read-side size/ratio validators accept every (payload, original) size pair compress() can emit, outside the recorded class F2.',
     'Assumed, not verified: inverse property of flate2/bzip2/lzma-rs/pklib/implode wrappers; huffman.rs and adpcm.rs have no unit. Vec::len <= isize::MAX and slice length <= isize::MAX are stated as preconditions (language invariants). Known finding F2.',
     ['compression/algorithms/zlib.rs, bzip2.rs, lzma.rs, pkware.rs, implode.rs (external codecs)', 'compression/algorithms/huffman.rs', 'compression/algorithms/adpcm.rs',
      'compression/decompress.rs: decompress_secure, decompress_with_monitor, decompress_multiple_*', 'compression/compress.rs: compress_internal, compress_multiple'])

prop('C04', 'proof',
     'Verus contracts on mechanically extracted functions (spec-function equality, inverse lemmas); Kani bounded stand-ins for byte-tail wrappers',
     'Proved unbounded (Verus/Z3) on the real bodies: generate_encryption_table / ENCRYPTION_TABLE equal the reference recurrence (all 1280 entries); ASCII_TO_UPPER/LOWER equal the ASCII fold; hash_string equals the reference MPQ hash for every string and hash type <= 0x400 and is invariant under ASCII case and slash direction (lemma); encrypt_block / decrypt_block / decrypt_dword equal the reference cipher for every key and every length, and decrypt∘encrypt = encrypt∘decrypt = id (lemmas). Published test vectors are proved about the spec by computation. Byte wrappers with tails (encrypt_data, decrypt_file_data, decrypt_table_data): bounded Kani stand-ins per length, all keys and byte values.',
     'Trusted: rustc const evaluation = run-time semantics of generate_encryption_table (E6). Not under contract: crypto/jenkins.rs (hashlittle2, one-at-a-time), crypto/signature.rs, calculate_mpq_hashes (Unicode to_uppercase before hashing).',
     ['crypto/jenkins.rs: jenkins_one_at_a_time, hashlittle2, jenkins_hashlittle2', 'crypto/mod.rs: calculate_mpq_hashes, calculate_het_hashes', 'crypto/signature.rs', 'simd/* hash variants'])

prop('C05', 'proof',
     'Verus totality contracts (no panic/overflow/OOB, termination, output bound) on extracted decoders; Kani complete harnesses on table-entry decoders',
     'Partial, by named kernel. Proved unbounded (Verus): sparse::decompress and rle::decompress are total for every input (no panic, no overflow, every loop terminates) with output/allocation bounded by the caller-supplied size; sparse::compress is total. Kani complete: HashEntry::from_bytes / BlockEntry::from_bytes are total with Ok iff >= 16 bytes; calculate_sector_size/is_power_of_two. Every public entry point not listed in functions_under_contract is unverified.',
     'Debug-profile overflow semantics (overflow = panic). "Bounded time" is decided only as loop termination of the listed kernels.',
     ['wow-mpq: Archive::open/list/read_file/get_info, read_sectored_file, header.rs, tables/het.rs, tables/bet.rs, special_files/*, patch/*, huffman.rs, adpcm.rs, external codec wrappers',
      'wow-m2, wow-adt, wow-wmo, wow-blp, wow-cdbc, wow-wdt, wow-wdl parsers (units pending)'])

prop('C06', 'proof',
     'Verus contracts on extracted MutableArchive hash-table functions and E11 statement blocks + tombstone lemmas',
     'Partial: the in-memory hash table of the editor as a map with tombstones. Proved unbounded (Verus): find_file_entry equals the spec probe (passes tombstones, stops at never-used, terminates after one cycle); add_to_hash_table writes into the first never-used-or-deleted slot of the probe path, touches nothing else, and terminates with Err on a full table (F6 repair); the tombstoning statements of remove_file / rename_file / add_file_data (E11 blocks) set exactly block_index = EMPTY_DELETED on the found slot; lemmas: tombstoning keeps other keys findable and removes the key, reuse of a free slot keeps other keys findable.',
     'Close/reopen, flush, compact, block table, listfile/attributes rewriting, file data placement are file-system histories and NOT under contract. The statement selecting the cached table (Option::or_else / as_mut with closures) is replaced by a trusted accessor (E12). Block units verify only the extracted statements, not that the caller passes the index returned by find_file_entry.',
     ['modification.rs: open, add_file, add_file_data (except the tombstone statement), remove_file/rename_file (except the tombstone statement), compact, flush, ensure_tables_loaded, prepare_file_data, update_listfile, write tables'])


prop('C08', 'proof',
     'Verus control-flow contract on extracted apply_patch / apply_copy_patch (MD5 uninterpreted); Kani harnesses on E11 statement blocks of apply_bsd0_patch and of the chain ordering',
     'Partial. Proved unbounded (Verus): apply_patch returns Ok(r) only if md5(base) equals the declared before-digest and md5(r) equals the declared after-digest - never unverified bytes - for both patch types, with the COPY/BSD0 appliers opaque; apply_copy_patch returns exactly the payload and only when both declared sizes match. Kani complete: BSD0 block-position arithmetic for all 64-bit header values (F5 repaired). Kani bounded: BSD0 control loop totality (50-byte buffer); insertion index of add_archive / add_archives_parallel / set_priority keeps the chain descending with earliest-added-wins ties (chain length <= 4); from_archives_parallel ordering is descending and stable (3 archives). RLE layer: U03.codecs.',
     'verify_base / verify_patched are trusted to compare the md-5 digest with the header field (their bodies call the md-5 crate). Block units verify only the extracted statements. Lookup/list/remove over real archives, rebuild_file_map (HashMap + Archive::list), parallel loading: file-system histories, not under contract.',
     ['patch_chain.rs: rebuild_file_map, read_file, read_patched_file, list, remove_archive, from_archives_parallel (except the sort), add_archives_parallel (except the index)',
      'patch/header.rs: PatchHeader::parse, PatchFile::parse, verify_base, verify_patched (trusted contract)', 'patch/apply.rs: apply_bsd0_patch header parsing through Cursor (only blocks are verified)'])




prop('C02', 'proof',
     'Verus spec-equality contracts (spec functions written from the published MPQ format) + Kani complete harnesses on constants, key statements (E11 blocks) and key formulas',
     'Partial: agreement with the published algorithms, not with a second implementation. Proved unbounded (Verus, shared with C04): crypt table, name hash (with the published test vectors proved about the spec), block cipher equal the published algorithms. Kani complete: block/hash-table flag constants, compression selectors and hash-type offsets equal the published values; the key statements of builder write_hash_table/write_block_table and of the table readers (E11 blocks) evaluate to 0xC3AF3770 / 0xEC83B3A3; ArchiveBuilder::calculate_file_key and the key computation of Archive::read_file (E11 block) both equal the published formula (hash(name,0x300) + file position) ^ file size under FIX_KEY, for all positions/sizes/flags; HashEntry/BlockEntry decoders are little-endian at the published offsets.',
     'No independent implementation can be run by a deductive verifier; "interoperates" is decided only as "equals the published algorithm" for the listed kernels. Header byte layout (write_header / MpqHeader::read), sector layout, per-sector compression bytes, HET/BET are NOT under contract. Undecided observations (DESIGN §4 C02): tail bytes of an encrypted block are enciphered with key + n; sector checksums are stored between offset table and data.',
     ['builder.rs: write_header, write_file, write_hash_table/write_block_table (except the key statement), HET/BET writers', 'header.rs: MpqHeader read/parse', 'archive.rs: everything except the read_file key block',
      'compression/methods.rs beyond the selector constants'])

prop('C13', 'proof',
     'Kani complete harnesses (loop-free, full byte domain, symbolic version) on the real record codecs; bounded stand-ins by version representative for M2Bone',
     'Partial: fixed-size record codecs. Kani complete: for M2Array, M2Track<C3Vector> (28/20 bytes by version), M2Animation (every version, every field value; F18 repaired) and M2Material, write(parse(bytes)) reproduces exactly the bytes read and the number of bytes equals the version-dependent record size; since every field is a plain little-endian scalar this also gives parse(write(v)) == v on the image of parse. Kani bounded: M2Bone header (every bone id / flag bit / parent / submesh / name CRC) for one representative version per branch (256, 260, 263, 264, 272). Documented normalisations are excluded by assumption and listed: unknown interpolation code -> Linear, NaN pivot -> 0.',
     'Whole-model write->parse (model.rs, offsets, relocation of animation data), skin, anim, converter, M2Header, M2Texture (Seek-based string), vertex records: NOT under contract. Observed, not decided: M2CompQuat::parse negates x while write does not.',
     ['model.rs', 'header.rs: M2Header::parse/write', 'skin.rs', 'anim.rs', 'converter.rs', 'chunks/texture.rs, vertex.rs and the remaining chunk types', 'common.rs: M2ArrayString, FixedString, read_array'])

prop('C19', 'proof',
     'Kani harnesses on E11 statement blocks extracted from the real extern "C" functions + complete harness on handle conversion',
     'Partial: single-call cursor arithmetic and handle conversion. Kani complete: handle_to_id rejects exactly the null handle and maps every other pointer value to itself without truncation (forged handles cannot alias live ids), id_to_handle inverts it; the position block of SFileSetFilePointer keeps the cursor inside the data for every i32 low/high part, every move method and every cursor/length value, without overflow (F11 repaired). Kani bounded: the cursor/copy block of SFileReadFile reports min(to_read, remaining), advances the cursor by exactly that, stays inside the data and (pointer checks on) writes only inside a caller buffer of to_read bytes (data <= 3 bytes, request <= 4 bytes).',
     'Threads, lock order across the three global tables, handle lifetime histories, agreement with the Rust API over real archives, every other SFile* function: NOT under contract (Kani has no threads; the global LazyLock<Mutex<HashMap>> tables exhaust CBMC). Block units verify the extracted statements only.',
     ['lib.rs: all SFile* functions except the two extracted blocks; FILES/ARCHIVES/FINDS tables; SFileCloseArchive invalidation'])


prop('C14', 'proof',
     'Verus contracts on extracted offset-table builders; Kani complete harness on the MHDR offset/flag calculators',
     'Partial: the offset-table arithmetic of the ADT serializer. Proved unbounded (Verus): create_mmid_chunk / create_mwid_chunk entry i is the byte offset of the i-th NUL-terminated filename (no overflow when the payload fits 32 bits); calculate_mcin_entries yields exactly 256 entries, the recorded MCNK chunks first with their (offset, size), zero padding after. Kani complete (all positions below 4 GiB): every MHDR entry computed by calculate_mhdr_offsets is the distance from the MHDR payload to the recorded position of the named chunk (0 when absent) and calculate_mhdr_flags sets bit 0/1 exactly when MFBO/MH2O are present.',
     'That serialize_to_writer records the true chunk positions, the chunk framing itself, MCNK sub-chunk offsets, MH2O, parsing (binrw-generated) and parse->serialise stability are NOT under contract. McinEntry::default() is modelled as all-zero (derive(Default)); String::len is an assumed specification.',
     ['builder/serializer.rs: serialize_to_writer, write_mcnk_chunk, write_minimal_mcnk_chunk, write_mh2o_chunk, write_chunk', 'builder/adt_builder.rs, built_adt.rs, validation.rs',
      'api.rs, root_parser.rs, split_parser.rs, chunk_discovery.rs, chunks/* (binrw readers/writers)', 'version.rs'])

prop('C15', 'proof',
     'Verus contracts on extracted WmoWriter chunk writers (framing, string-table and count laws); Kani complete harness on the chunk header codec',
     'Partial: the derived data of the WMO root writer. Proved unbounded (Verus, on extracted code with W: Write instantiated by an in-memory sink): write_textures / write_group_names emit a chunk whose size field equals the payload written and whose payload is the names in order, each NUL-terminated; write_group_info emits 32 bytes per group and the name-offset word of entry i is the byte offset of group i\'s name in the MOGN payload (F21 repaired); write_materials declares exactly the 64 bytes per material it writes (F20 repaired); the MOHD count words are the lengths of the lists they describe, in the order the parser reads them (E11 block of write_header); write_indices frames 2 bytes per index. Kani complete: ChunkHeader::write emits the identifier reversed and the size little-endian, ChunkHeader::read inverts it for all 2^64 headers and rejects short input.',
     'Known findings (recorded, not repaired; confirmed natively on every run): WmoGroupParser::parse_group is a stub that rejects every input, so no group survives write->parse (F22); parse_wmo rejects the 60-byte MOHD that write_root emits (F23); the root bounding box is not read back (F24); doodad name offsets are rewritten (F25); the skybox is lost for WotLK..MoP targets (F26). Not under contract: every other chunk writer (portals, lights, doodads, visibility, group sub-chunks, liquid, BSP), both parsers, the converter. String::len / as_bytes and the bitflags bits() accessors are assumed specifications; f32 bytes are uninterpreted.',
     ['writer.rs: write_root, write_group, write_version, write_header (flags, colour, bounds), write_skybox, write_portals, write_portal_references, write_visible_block_lists, write_lights, write_doodad_definitions, write_doodad_sets, write_vertices, write_normals, write_texture_coords, write_vertex_colors, write_batches, write_bsp_nodes, write_liquid, write_doodad_refs',
      'parser.rs (all), group_parser.rs (all), root_parser.rs, api.rs: parse_wmo', 'converter.rs, editor.rs, version.rs'])

prop('C16', 'proof',
     'Kani complete harnesses on the real header codec, locator bounds and mip arithmetic; Kani bounded harnesses on E11 blocks of the alpha bit packing',
     'Partial. Kani complete (full field domains): parse_header(encode_header(h)) == h for BLP0/BLP1/BLP2 (every content kind, defined alpha depth, compression, alpha type, flag value, dimension <= 65535, locator table) and the encoded size equals the header size of the version; get_bounded_slice returns exactly [offset, offset+size) and only when it lies inside the file, for all u32 offset/size (F3 repaired); mipmap_size(i) == (max(w>>i,1), max(h>>i,1)) for all u32 w,h and every level, pixel count is the product and never overflows (F14 repaired); parse_header is total on arbitrary bytes. Kani bounded: the 1-bit and 4-bit alpha packing loops (E11 blocks of convert/raw1.rs) produce ceil(n*bits/8) bytes with pixel i at the bit position the reader unpacks, quantised to the declared depth (<= 10 / <= 6 pixels, partial last byte included).',
     'mipmaps_count goes through f32::log2, which CBMC does not model bit-precisely: not decided (exercised natively by the blp_mips oracle only). Everything through the image / texpresso crates (mip generation, palette quantisation, DXT, JPEG), parse_direct_content / parse_jpeg_content bodies, raw3, and the whole encode->parse structure equality are NOT under contract. Observed, not decided: convert/mipmap.rs stops at min-side 1 while the header counts by the larger side (F12); read_u32_array pre-allocates count entries taken from the header (F16).',
     ['parser/mod.rs: parse_blp, parse_content, load_blp*', 'parser/direct/*: parse_blp0, parse_raw1, parse_raw3, parse_dxtn', 'parser/jpeg.rs: parse_jpeg_content',
      'encode/mod.rs: encode_blp, encode_content, encode_raw*, encode_dxtn, encode_jpeg', 'convert/*: image_to_blp, blp_to_image, raw1/raw3/dxtn/jpeg/mipmap/palette (except the two packing loops)', 'types/header.rs: mipmaps_count (f32::log2)'])

prop('C17', 'proof',
     'Verus contract on extracted StringBlock::get_string / is_string_start; Kani complete harnesses on DbcHeader; Kani bounded on record size and on the key-map E11 block',
     'Partial. Proved unbounded (Verus): StringBlock::get_string returns exactly the bytes from the offset to the first NUL (or block end) and Err for offsets outside the block, for blocks of any size; is_string_start law. Kani complete (all u32 field values): DbcHeader::string_block_offset/total_size obey the size law in 64-bit arithmetic without overflow; DbcHeader::parse decodes little-endian fields and rejects inconsistent counts. Kani bounded: Schema::record_size is the packed sum of field widths (<= 4 fields, arrays <= 3); the hashed key map built by create_sorted_key_map maps every key to a record carrying it (3 records, every order; HashMap replaced by an assoc-list contract). Verus on the E11 interning block of DbcWriter::build_string_block: an already interned string changes neither the map nor the block (identical strings stored once), a new string is appended once, NUL-terminated, at the recorded offset (HashMap<String,u32> replaced by a trusted map contract).',
     'std::str::from_utf8 is an assumed specification. Not under contract: DbcWriter (string interning through HashMap<String,u32>), DbcParser::parse_records field decoding, CachedStringBlock, lazy/mmap/parallel access paths, binary-search lookup. Known discrepancy noticed by a sub-agent and not decided here: the writer sets field_count to schema.fields.len() while validate counts array elements.',
     ['writer.rs: DbcWriter::write_records, build_string_block, write_record, write_value', 'parser.rs: DbcParser::parse, parse_records, RecordSet::get_record_by_key_binary_search, create_sorted_key_map (except the map-building loop)',
      'stringblock.rs: CachedStringBlock', 'field_parser.rs, lazy.rs, mmap.rs, parallel.rs, versions.rs, schema.rs: Schema::validate'])

prop('C18', 'proof',
     'Verus contracts on extracted MAIN/MAID chunk codecs; Kani complete harness (full finite domain, IEEE-754 bit-precise) on the coordinate functions',
     'Proved unbounded (Verus, on extracted code with generic Read/Write instantiated by in-memory models): MainChunk::read places entry (x,y) at byte offset (y*64+x)*8 as two little-endian words and MainChunk::write emits exactly that layout (so parse(write(c)) == c and write(parse(b)) == b); MaidChunk::read/write do the same for every section at offset ((s*64+y)*64+x)*4. Kani complete: world_to_tile(tile_to_world(x,y)) == (x,y) for all 64x64 tiles, IEEE-754 bit-precise (F4 repaired).',
     'Trusted: CBMC float semantics = hardware IEEE-754 f32; generic impl Read / impl Write parameters are instantiated with in-memory models (E12); u32::from_le_bytes/to_le_bytes are trusted wrappers. MPHD/MWMO/MODF chunks, chunk framing in WdtReader/WdtWriter, version conversion and the whole WDL crate (offset table vs emission order) are NOT under contract.',
     ['wow-wdt: WdtReader::read, WdtWriter::write (chunk framing), MphdChunk, MwmoChunk, ModfChunk, conversion.rs, version.rs', 'wow-wdl: parser.rs (parse/write incl. MAOF offsets), types.rs, conversion.rs, validation.rs'])

json.dump(R, open(os.path.join(V, 'registry.json'), 'w'), indent=1)
print('registry: %s' % ' '.join(sorted(R)))
