"""Minimal Rust lexical helper: code mask (code vs comment/string/char), brace matching,
item location.  No expression parsing.  Used by extract.py.

Everything here works on a `str` plus a parallel `mask` list:
  'c' code, '/' comment (line, block, doc), 's' string/char/byte literal contents+quotes.
"""
import re

IDENT = re.compile(r"[A-Za-z_][A-Za-z0-9_]*")


class LexError(Exception):
    pass


def mask(src):
    n = len(src)
    m = ['c'] * n
    i = 0
    while i < n:
        ch = src[i]
        nx = src[i + 1] if i + 1 < n else ''
        if ch == '/' and nx == '/':
            j = src.find('\n', i)
            if j < 0:
                j = n
            for k in range(i, j):
                m[k] = '/'
            i = j
        elif ch == '/' and nx == '*':
            depth = 1
            j = i + 2
            while j < n and depth > 0:
                if src.startswith('/*', j):
                    depth += 1
                    j += 2
                elif src.startswith('*/', j):
                    depth -= 1
                    j += 2
                else:
                    j += 1
            for k in range(i, j):
                m[k] = '/'
            i = j
        elif ch == '"' or (ch in 'br' and _is_str_start(src, i)):
            j = _skip_string(src, i)
            for k in range(i, j):
                m[k] = 's'
            i = j
        elif ch == "'":
            j = _skip_char_or_lifetime(src, i)
            if j is None:
                i += 1  # lifetime tick, leave as code
            else:
                for k in range(i, j):
                    m[k] = 's'
                i = j
        else:
            i += 1
    return m


def _is_str_start(src, i):
    # b"..", r"..", r#".."#, br".." , b'x'
    if i > 0 and (src[i - 1].isalnum() or src[i - 1] == '_'):
        return False
    mm = re.match(r'(b?r#*"|b")', src[i:i + 12])
    if mm:
        return True
    if src.startswith("b'", i):
        return True
    return False


def _skip_string(src, i):
    n = len(src)
    if src.startswith("b'", i):
        j = _skip_char_or_lifetime(src, i + 1)
        if j is None:
            raise LexError("bad byte char at %d" % i)
        return j
    mm = re.match(r'b?r(#*)"', src[i:i + 40])
    if mm:
        hashes = mm.group(1)
        end = '"' + hashes
        j = src.find(end, i + mm.end())
        if j < 0:
            raise LexError("unterminated raw string")
        return j + len(end)
    if src[i] == 'b':
        i += 1
    assert src[i] == '"'
    j = i + 1
    while j < n:
        if src[j] == '\\':
            j += 2
        elif src[j] == '"':
            return j + 1
        else:
            j += 1
    raise LexError("unterminated string")


def _skip_char_or_lifetime(src, i):
    # src[i] == "'"; returns end index if char literal, None if lifetime
    n = len(src)
    if i + 1 >= n:
        return None
    if src[i + 1] == '\\':
        j = src.find("'", i + 2)
        # handle '\'' : escaped quote
        if src[i + 2] == "'":
            j = src.find("'", i + 3)
        return j + 1 if j >= 0 else None
    # 'x' (any single scalar) followed by '
    if i + 2 < n and src[i + 2] == "'":
        return i + 3
    return None


def code_find(src, m, lit, start=0, end=None):
    """Find literal `lit` beginning at a code position in [start,end)."""
    if end is None:
        end = len(src)
    i = start
    while True:
        j = src.find(lit, i, end)
        if j < 0:
            return -1
        if m[j] == 'c':
            return j
        i = j + 1


def match_close(src, m, i):
    """src[i] is an opening bracket at a code position; return index of its match."""
    opener = src[i]
    closer = {'{': '}', '(': ')', '[': ']'}[opener]
    depth = 0
    n = len(src)
    j = i
    while j < n:
        if m[j] == 'c':
            c = src[j]
            if c == opener:
                depth += 1
            elif c == closer:
                depth -= 1
                if depth == 0:
                    return j
        j += 1
    raise LexError("unbalanced %r at %d" % (opener, i))


def find_body_open(src, m, i, stop_chars=';'):
    """From position i scan forward for the first '{' at ()/[]/<>-agnostic depth 0
    (parens and square brackets tracked).  Returns index or -1 if a stop char at
    depth 0 is seen first (e.g. `fn f();`)."""
    n = len(src)
    depth = 0
    j = i
    while j < n:
        if m[j] == 'c':
            c = src[j]
            if c in '([':
                depth += 1
            elif c in ')]':
                depth -= 1
            elif c == '{' and depth == 0:
                return j
            elif c in stop_chars and depth == 0:
                return -1
        j += 1
    return -1


def word_iter(src, m, start=0, end=None):
    """Yield (pos, word) for identifier tokens at code positions."""
    if end is None:
        end = len(src)
    for mm in IDENT.finditer(src, start, end):
        if m[mm.start()] == 'c':
            # skip if preceded by an identifier char (cannot happen with regex) or is part of lifetime
            if mm.start() > 0 and src[mm.start() - 1] == "'":
                continue
            yield mm.start(), mm.group(0)


def item_start(src, m, kw_pos):
    """Walk back from the keyword position over visibility/qualifiers/attributes/doc
    comments to the start of the item (start of its first line)."""
    # go to line start of the keyword's line, then include preceding lines that are
    # attributes or doc comments
    ls = src.rfind('\n', 0, kw_pos) + 1
    while ls > 0:
        prev_ls = src.rfind('\n', 0, ls - 1) + 1
        line = src[prev_ls:ls - 1].strip()
        if line.startswith('#[') or line.startswith('///') or line.startswith('//!') or line.startswith('//'):
            ls = prev_ls
            continue
        # multi-line attribute end `)]`
        if line.endswith(')]') and not line.startswith('#['):
            # find the attribute start upward
            k = prev_ls
            found = False
            while k > 0:
                kk = src.rfind('\n', 0, k - 1) + 1
                l2 = src[kk:k - 1].strip()
                if l2.startswith('#['):
                    ls = kk
                    found = True
                    break
                k = kk
                if prev_ls - kk > 2000:
                    break
            if found:
                continue
        break
    return ls


def find_impl_blocks(src, m, type_name):
    """Yield (open_brace, close_brace) for `impl ... type_name ... {` blocks."""
    for pos, w in word_iter(src, m):
        if w != 'impl':
            continue
        ob = find_body_open(src, m, pos)
        if ob < 0:
            continue
        header = src[pos:ob]
        # strip generics roughly; accept `impl<T> Trait for Type<T>` and `impl Type`
        hdr = re.sub(r'\s+', ' ', header)
        target = hdr.split(' for ')[-1] if ' for ' in hdr else hdr[4:]
        target = re.sub(r'^<[^>]*>\s*', '', target.strip())
        tname = re.match(r'[A-Za-z_][A-Za-z0-9_:]*', target.strip())
        if tname and tname.group(0).split('::')[-1] == type_name:
            yield pos, ob, match_close(src, m, ob)


def depth_at(src, m, start, pos):
    d = 0
    for j in range(start, pos):
        if m[j] == 'c':
            if src[j] == '{':
                d += 1
            elif src[j] == '}':
                d -= 1
    return d
