#!/usr/bin/env python3
"""evcheck.py - the committed evidence files must be records of clean runs on /repo: level = the level claimed in
MANIFEST.json, at least one unbounded obligation, all of them discharged, no violation."""
import json, glob, sys, os
V = os.path.dirname(os.path.dirname(os.path.abspath(__file__)))
m = {c['property_id']: c for c in json.load(open(os.path.join(V, 'MANIFEST.json')))['checks']}
bad = 0
for f in sorted(glob.glob(os.path.join(V, 'evidence', '*.json'))):
    e = json.load(open(f)); c = e['coverage']
    ok = (e['level'] == m[e['property_id']]['level_claimed']['category'] and c['obligations'] >= 1
          and c['discharged'] == c['obligations'] and e.get('violations', 0) == 0 and not c.get('undecided'))
    print(e['property_id'], e['level'], c['obligations'], c['discharged'], e['tier'], 'ok' if ok else 'PROBLEM')
    bad += 0 if ok else 1
sys.exit(1 if bad else 0)
