#!/bin/bash
# seedrun2.sh <worktree> <patch.diff> <PROP> [PROP...] - like seedrun.sh, but the change is applied in a scratch
# worktree of /repo (same HEAD) and the checks are pointed at it with VERIF_REPO, so /repo stays free.
W=$1; PATCH=$2; shift 2
cd $W && git diff --quiet || { echo "$W not clean"; exit 2; }
[ "$(git -C $W rev-parse HEAD)" = "$(git -C /repo rev-parse HEAD)" ] || { echo "$W is not at /repo HEAD"; exit 2; }
git -C $W apply "$PATCH" || exit 2
for p in "$@"; do
  ( cd /verif && VERIF_REPO=$W ./check $p --tier ${TIER:-quick} 2>&1 | grep -v "^\s*$" | tail -8; echo "rc=${PIPESTATUS[0]}" )
done
git -C $W checkout -- .
