"""Kani back end: scratch copy of /repo's working tree, hooks, harness files, one
`cargo kani` invocation per crate, result parsing, concrete playback replay."""
import json
import os
import re
import shutil
import subprocess
import sys
import time

sys.path.insert(0, os.path.dirname(os.path.abspath(__file__)))
import kblocks  # noqa: E402

VERIF = os.path.dirname(os.path.dirname(os.path.abspath(__file__)))
WORK = os.environ.get('VERIF_WORK', '/var/tmp/wrv')
MEM_KB = int(os.environ.get('VERIF_KANI_MEM_KB', str(30 * 1024 * 1024)))

ENV = dict(os.environ)
ENV['CARGO_NET_OFFLINE'] = 'true'
ENV.pop('RUSTUP_TOOLCHAIN', None)


def load_hooks():
    return json.load(open(os.path.join(VERIF, 'hooks', 'hooks.json')))


def parse_harnesses(path):
    """`// @harness k=v ...` comment lines directly above a #[kani::proof] fn."""
    src = open(path).read()
    out = {}
    for mm in re.finditer(r'// @harness ([^\n]*)\n((?:\s*(?://[^\n]*|#\[[^\n]*\])\n)*)\s*(?:(?:pub )?fn |\w+!\()(\w+)', src):
        meta = {}
        for kv in re.finditer(r'(\w+)=("([^"]*)"|\S+)', mm.group(1)):
            meta[kv.group(1)] = kv.group(3) if kv.group(3) is not None else kv.group(2)
        meta['name'] = mm.group(3)
        meta.setdefault('tier', 'quick')
        meta.setdefault('kind', 'complete')
        meta.setdefault('timeout', '300')
        meta['props'] = meta.get('props', '').split(',')
        out[meta['name']] = meta
    return out


def prepare_scratch(tag, repo='/repo', crates=None):
    """Fresh copy of the working tree (no target/, no .git) with hooks + harness files.
    crates: E11 blocks are generated (and may raise ExtractError) only for these crates; the harness modules of the other
    crates are replaced by an empty stub so that an anchor lost in an unrelated crate cannot disturb this run."""
    base = os.path.join(WORK, tag)
    dst = os.path.join(base, 'repo')
    os.makedirs(base, exist_ok=True)
    subprocess.run(['rsync', '-a', '--delete', '--exclude', '/target', '--exclude', '.git', repo + '/', dst + '/'], check=True)
    applied = []
    for h in load_hooks():
        cdir = os.path.join(dst, h['crate_dir'])
        root = os.path.join(cdir, h['root'])
        if not os.path.exists(root):
            continue
        txt = open(root).read()
        if h['hook_line'].replace('\n', '').replace(' ', '') not in txt.replace('\n', '').replace(' ', ''):
            with open(root, 'a') as f:
                f.write('\n' + h['hook_line'] + '\n')
            applied.append('%s: hook appended in scratch copy (missing in working tree)' % h['root'])
        srcp = os.path.join(VERIF, h['harness_src'])
        if crates is not None and h['crate'] not in crates:
            open(os.path.join(cdir, h['harness_dst']), 'w').write('// harnesses of this crate are not part of this run\n')
        elif os.path.exists(srcp):
            shutil.copy(srcp, os.path.join(cdir, h['harness_dst']))
            _, notes = kblocks.generate(os.path.dirname(srcp), dst, h['crate_dir'])
            for n in notes:
                msg = 'E11 block %(block)s from %(file)s | %(fn)s: %(statements)s' % n
                if msg not in applied:
                    applied.append(msg)
        else:
            open(os.path.join(cdir, h['harness_dst']), 'w').write('// no harnesses for this module\n')
        for extra in h.get('scratch_edits', []):
            fp = os.path.join(dst, extra['file'])
            t = open(fp).read()
            if extra['old'] in t:
                open(fp, 'w').write(t.replace(extra['old'], extra['new']))
                applied.append('%s: %s' % (extra['file'], extra['why']))
    lock = os.path.join(repo, 'Cargo.lock')
    if os.path.exists(lock):
        shutil.copy(lock, os.path.join(dst, 'Cargo.lock'))
    return base, dst, applied


def cleanup_scratch(base):
    shutil.rmtree(os.path.join(base, 'repo'), ignore_errors=True)
    if os.environ.get('VERIF_KEEP_CACHE', '1') != '1':
        shutil.rmtree(base, ignore_errors=True)


def _run(cmd, cwd, timeout, env=None, log=None):
    t0 = time.time()
    pre = 'ulimit -v %d; ' % MEM_KB
    try:
        p = subprocess.run(['bash', '-c', pre + 'exec ' + ' '.join(cmd)], cwd=cwd, env=env or ENV, capture_output=True,
                           text=True, timeout=timeout)
        out = p.stdout + '\n' + p.stderr
        rc = p.returncode
    except subprocess.TimeoutExpired as e:
        out = ((e.stdout or b'').decode(errors='replace') if isinstance(e.stdout, bytes) else (e.stdout or '')) + '\n[driver timeout]'
        rc = -9
        subprocess.run(['pkill', '-f', cwd], capture_output=True)
    if log:
        open(log, 'w').write(out)
    return rc, out, time.time() - t0


def run_kani(base, dst, crate, harnesses, jobs=8, extra_flags=()):
    """harnesses: list of meta dicts (all in `crate`).  Returns {name: result}."""
    if not harnesses:
        return {}
    tmax = max(int(h['timeout']) for h in harnesses)
    cmd = ['cargo', 'kani', '-p', crate, '-j', str(jobs), '--output-format=terse', '-Z', 'unstable-options',
           '--harness-timeout', '%ds' % tmax, '--target-dir', os.path.join(base, 'target-' + crate),
           '-Z', 'function-contracts', '-Z', 'stubbing', '--exact']
    cmd.append('--lib')
    for h in harnesses:
        cmd += ['--harness', h.get('path', 'verif_kani::' + h['name'])]
    cmd += list(extra_flags)
    total_timeout = 900 + tmax * (1 + len(harnesses) // max(1, jobs))
    log = os.path.join(base, 'kani-%s.log' % crate)
    rc, out, wall = _run(cmd, dst, total_timeout, log=log)
    res = parse_kani_output(out, harnesses)
    for r in res.values():
        r['log'] = log
    if 'error: could not compile' in out or 'error[E' in out or 'error: failed to' in out or 'Failed to execute cargo' in out:
        errs = [ln for ln in out.split('\n') if ln.startswith('error')][:5]
        for r in res.values():
            if r['status'] == 'undecided' and (r['reason'] or '').startswith('no result block'):
                r['reason'] = 'build failed: ' + ' | '.join(errs)
    return res


def parse_kani_output(out, harnesses):
    names = {h['name']: h for h in harnesses}
    res = {n: {'status': 'noresult', 'checks': 0, 'failed_checks': [], 'time_s': None, 'reason': None} for n in names}
    cur = {}
    # split on thread markers, keep order
    parts = re.split(r'(?m)^Thread (\d+): ?', out)
    # parts: [pre, tid, text, tid, text, ...]
    seq = [('0', parts[0])] if len(parts) == 1 else list(zip(parts[1::2], parts[2::2]))
    if len(parts) == 1:
        # sequential (-j 1) output format: "Checking harness X..." then result
        seq = []
        for mm in re.finditer(r'Checking harness (\S+?)\.\.\.(.*?)(?=Checking harness |\Z)', out, flags=re.S):
            seq.append(('0', 'Checking harness %s...' % mm.group(1)))
            seq.append(('0', mm.group(2)))
    for tid, text in seq:
        mm = re.match(r'\s*Checking harness (\S+?)\.\.\.', text)
        if mm:
            cur[tid] = mm.group(1).split('::')[-1]
            continue
        if 'VERIFICATION' not in text and 'CBMC' not in text and 'timed out' not in text.lower():
            continue
        name = cur.get(tid)
        if name not in res:
            continue
        r = res[name]
        mm = re.search(r'\*\* (\d+) of (\d+) failed', text)
        if mm:
            r['checks'] = int(mm.group(2))
        for fm in re.finditer(r'Failed Checks: (.*)\n\s*File: "([^"]*)", line (\d+)', text):
            r['failed_checks'].append({'description': fm.group(1).strip(), 'file': fm.group(2), 'line': int(fm.group(3))})
        for fm in re.finditer(r'Failed Checks: (.*)\n(?!\s*File:)', text):
            r['failed_checks'].append({'description': fm.group(1).strip(), 'file': None, 'line': None})
        tm = re.search(r'Verification Time: ([0-9.]+)s', text)
        if tm:
            r['time_s'] = float(tm.group(1))
        if 'VERIFICATION:- SUCCESSFUL' in text:
            r['status'] = 'ok'
        elif 'VERIFICATION:- FAILED' in text:
            # unwinding / unsupported-construct failures are not property refutations
            descs = ' '.join(f['description'] for f in r['failed_checks'])
            if r['failed_checks'] and all(('unwinding assertion' in f['description'] or 'is not currently supported' in f['description']
                                          or 'unsupported' in f['description'].lower()) for f in r['failed_checks']):
                r['status'] = 'undecided'
                r['reason'] = 'only unwinding/unsupported checks failed: ' + descs[:200]
            elif not r['failed_checks']:
                r['status'] = 'undecided'
                r['reason'] = 'FAILED without a failed check (CBMC aborted: memory limit, timeout or crash)'
            else:
                r['status'] = 'fail'
        if 'timed out' in text.lower() or 'CBMC timed out' in text:
            r['status'] = 'undecided'
            r['reason'] = 'harness timeout'
    for n, r in res.items():
        if r['status'] == 'noresult':
            r['status'] = 'undecided'
            mm = re.search(r'(?m)^.*%s.*(timed out|out of memory|killed).*$' % re.escape(n), out)
            r['reason'] = mm.group(0)[:200] if mm else 'no result block in Kani output (timeout, memory limit or crash)'
    return res


def playback(base, dst, crate, crate_dir, harness_meta):
    """Concrete playback for a failed harness: returns dict with values and native run output."""
    name = harness_meta['name']
    hp = harness_meta.get('path', 'verif_kani::' + name)
    tdir = os.path.join(base, 'target-' + crate)
    cmd = ['cargo', 'kani', '-p', crate, '--lib', '--exact', '--harness', hp, '-Z', 'concrete-playback', '--concrete-playback=inplace',
           '-Z', 'function-contracts', '-Z', 'stubbing', '--target-dir', tdir, '--output-format=terse']
    rc, out, _ = _run(cmd, dst, min(int(harness_meta['timeout']), 600) + 120)
    rep = {'harness': name, 'concrete_values': [], 'native_playback': None}
    # collect generated tests from harness file(s)
    tests = []
    for root, _, files in os.walk(os.path.join(dst, crate_dir, 'src')):
        for f in files:
            if f.endswith('.rs'):
                t = open(os.path.join(root, f)).read()
                for mm in re.finditer(r'fn (kani_concrete_playback_%s_\d+)\(\) \{\s*let concrete_vals: Vec<Vec<u8>> = vec!\[(.*?)\];' % re.escape(name), t, flags=re.S):
                    vals = []
                    for vm in re.finditer(r'(?://\s*(.*)\n\s*)?vec!\[([0-9, ]*)\]', mm.group(2)):
                        bs = [int(x) for x in vm.group(2).replace(' ', '').split(',') if x]
                        vals.append({'bytes': bs, 'as_le_int': int.from_bytes(bytes(bs), 'little') if bs else 0,
                                     'comment': (vm.group(1) or '').strip()})
                    tests.append({'test': mm.group(1), 'values': vals})
    rep['concrete_values'] = tests[:4]
    if not tests:
        rep['native_playback'] = 'no concrete playback test was generated'
        return rep
    env = dict(ENV)
    env['CARGO_TARGET_DIR'] = os.path.join(base, 'target-pb-' + crate)
    cmd = ['cargo', 'kani', 'playback', '-Z', 'concrete-playback', '-p', crate, '--', 'kani_concrete_playback_' + name]
    rc, out, _ = _run(cmd, dst, 900, env=env)
    tail = [ln for ln in out.split('\n') if ('panicked at' in ln or 'test result' in ln or ln.startswith('test ') or 'overflow' in ln
                                             or 'survives' in ln or 'assert' in ln.lower())][:20]
    rep['native_playback'] = {'exit': rc, 'reproduced_on_real_code': ('test result: FAILED' in out), 'output': tail}
    return rep
