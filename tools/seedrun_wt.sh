#!/bin/bash
# seedrun_wt.sh <worktree> <patch.diff> <PROP> [PROP...] - apply a seeded change inside its own scratch worktree (never /repo),
# run the checks against that tree (VERIF_REPO), revert.  Evidence of such runs stays in the scratch area.
W=$1; PATCH=$2; shift 2
git -C $W checkout -q -- . ; git -C $W apply "$PATCH" || exit 2
for p in "$@"; do
  ( cd /verif && VERIF_REPO=$W VERIF_SCRATCH_EVIDENCE=1 ./check $p --tier ${TIER:-quick} 2>&1 | tail -8; echo "rc=${PIPESTATUS[0]}" )
done
git -C $W checkout -q -- .
