//! Reference implementations written from the published MPQ format description
//! (independent of the code under test).

pub fn crypt_table() -> Vec<u32> {
    let mut t = vec![0u32; 0x500];
    let mut seed: u64 = 0x0010_0001;
    for i1 in 0..0x100usize {
        for i2 in 0..5usize {
            seed = (seed * 125 + 3) % 0x2AAAAB;
            let a = (seed & 0xFFFF) << 16;
            seed = (seed * 125 + 3) % 0x2AAAAB;
            let b = seed & 0xFFFF;
            t[i1 + i2 * 0x100] = (a | b) as u32;
        }
    }
    t
}

pub fn fold(b: u8) -> u8 {
    let c = if b == b'/' { b'\\' } else { b };
    if (b'a'..=b'z').contains(&c) { c - 32 } else { c }
}

pub fn hash(bytes: &[u8], t: u32) -> u32 {
    let tab = crypt_table();
    let mut s1: u32 = 0x7FED7FED;
    let mut s2: u32 = 0xEEEEEEEE;
    for &b in bytes {
        let ch = fold(b) as u32;
        s1 = tab[(t + ch) as usize] ^ s1.wrapping_add(s2);
        s2 = ch.wrapping_add(s1).wrapping_add(s2).wrapping_add(s2 << 5).wrapping_add(3);
    }
    s1
}

pub fn encrypt(data: &[u32], mut key: u32) -> Vec<u32> {
    let tab = crypt_table();
    if key == 0 { return data.to_vec(); }
    let mut seed: u32 = 0xEEEEEEEE;
    let mut out = Vec::new();
    for &p in data {
        seed = seed.wrapping_add(tab[0x400 + (key & 0xFF) as usize]);
        out.push(p ^ key.wrapping_add(seed));
        key = ((!key) << 21).wrapping_add(0x11111111) | (key >> 11);
        seed = p.wrapping_add(seed).wrapping_add(seed << 5).wrapping_add(3);
    }
    out
}

pub fn decrypt(data: &[u32], mut key: u32) -> Vec<u32> {
    let tab = crypt_table();
    if key == 0 { return data.to_vec(); }
    let mut seed: u32 = 0xEEEEEEEE;
    let mut out = Vec::new();
    for &c in data {
        seed = seed.wrapping_add(tab[0x400 + (key & 0xFF) as usize]);
        let p = c ^ key.wrapping_add(seed);
        out.push(p);
        key = ((!key) << 21).wrapping_add(0x11111111) | (key >> 11);
        seed = p.wrapping_add(seed).wrapping_add(seed << 5).wrapping_add(3);
    }
    out
}

/// xorshift PRNG so that VERIF_SEED reproduces
pub struct Rng(pub u64);
impl Rng {
    pub fn next(&mut self) -> u64 {
        let mut x = self.0 | 1;
        x ^= x << 13; x ^= x >> 7; x ^= x << 17;
        self.0 = x;
        x.wrapping_mul(0x2545F4914F6CDD1D)
    }
    pub fn bytes(&mut self, n: usize) -> Vec<u8> { (0..n).map(|_| (self.next() >> 24) as u8).collect() }
}

pub fn lfold(b: u8) -> u8 { let c = if b == b'/' { b'\\' } else { b }; if c.is_ascii_uppercase() { c + 32 } else { c } }

/// Bob Jenkins' one-at-a-time on 64-bit words over the lower-cased, backslash-normalised bytes
pub fn oaat(bytes: &[u8]) -> u64 {
    let mut h: u64 = 0;
    for &b in bytes { h = h.wrapping_add(lfold(b) as u64); h = h.wrapping_add(h << 10); h ^= h >> 6; }
    h = h.wrapping_add(h << 3); h ^= h >> 11; h = h.wrapping_add(h << 15);
    h
}

fn rot(x: u32, k: u32) -> u32 { x.rotate_left(k) }

/// lookup3.c hashlittle2, written byte-wise from the published source (little-endian, unaligned path)
pub fn hashlittle2(key: &[u8], pc: u32, pb: u32) -> (u32, u32) {
    let mut a = 0xdeadbeefu32.wrapping_add(key.len() as u32).wrapping_add(pc);
    let mut b = a; let mut c = a.wrapping_add(pb);
    let mut k = key;
    let w = |k: &[u8], i: usize| -> u32 { (k[i] as u32) | ((k[i + 1] as u32) << 8) | ((k[i + 2] as u32) << 16) | ((k[i + 3] as u32) << 24) };
    while k.len() > 12 {
        a = a.wrapping_add(w(k, 0)); b = b.wrapping_add(w(k, 4)); c = c.wrapping_add(w(k, 8));
        a = a.wrapping_sub(c); a ^= rot(c, 4); c = c.wrapping_add(b);
        b = b.wrapping_sub(a); b ^= rot(a, 6); a = a.wrapping_add(c);
        c = c.wrapping_sub(b); c ^= rot(b, 8); b = b.wrapping_add(a);
        a = a.wrapping_sub(c); a ^= rot(c, 16); c = c.wrapping_add(b);
        b = b.wrapping_sub(a); b ^= rot(a, 19); a = a.wrapping_add(c);
        c = c.wrapping_sub(b); c ^= rot(b, 4); b = b.wrapping_add(a);
        k = &k[12..];
    }
    if k.is_empty() { return (c, b); }
    for (i, &byte) in k.iter().enumerate() {
        let v = (byte as u32) << (8 * (i % 4));
        match i / 4 { 0 => a = a.wrapping_add(v), 1 => b = b.wrapping_add(v), _ => c = c.wrapping_add(v) }
    }
    c ^= b; c = c.wrapping_sub(rot(b, 14)); a ^= c; a = a.wrapping_sub(rot(c, 11));
    b ^= a; b = b.wrapping_sub(rot(a, 25)); c ^= b; c = c.wrapping_sub(rot(b, 16));
    a ^= c; a = a.wrapping_sub(rot(c, 4)); b ^= a; b = b.wrapping_sub(rot(a, 14));
    c ^= b; c = c.wrapping_sub(rot(b, 24));
    (c, b)
}
