//! Native replay / differential oracles.  NOT part of the verified artefact: this crate
//! links the real crates of the tree under test and searches for a concrete input that
//! exhibits a failed obligation, so that a VIOLATION can carry a failing input.
//! Every oracle prints one JSON object on stdout.
mod refimpl;
mod oracles;
mod storm_mod;

fn main() {
    let args: Vec<String> = std::env::args().collect();
    if args.len() < 2 {
        eprintln!("usage: wrv-replay <oracle> [seed] [args..]");
        std::process::exit(2);
    }
    let seed: u64 = args.get(2).and_then(|s| s.parse().ok()).unwrap_or(0);
    let rest: Vec<String> = args.iter().skip(3).cloned().collect();
    let out = oracles::run(&args[1], seed, &rest);
    println!("{}", out);
}
