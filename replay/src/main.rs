//! Native replay / differential oracles.  NOT part of the verified artefact: this crate
//! links the real crates of the tree under test and searches for a concrete input that
//! exhibits a failed obligation, so that a VIOLATION can carry a failing input.
//! Every oracle prints one JSON object on stdout.
mod refimpl;

// Allocation tracking (C05: "requesting memory out of proportion to the input size"): the largest single request since the
// last reset.  Pass-through to the system allocator otherwise.
pub mod alloc_track {
    use std::alloc::{GlobalAlloc, Layout, System};
    use std::sync::atomic::{AtomicUsize, Ordering};
    pub static MAX_REQ: AtomicUsize = AtomicUsize::new(0);
    pub struct Tracking;
    unsafe impl GlobalAlloc for Tracking {
        unsafe fn alloc(&self, l: Layout) -> *mut u8 { MAX_REQ.fetch_max(l.size(), Ordering::Relaxed); unsafe { System.alloc(l) } }
        unsafe fn dealloc(&self, p: *mut u8, l: Layout) { unsafe { System.dealloc(p, l) } }
        unsafe fn alloc_zeroed(&self, l: Layout) -> *mut u8 { MAX_REQ.fetch_max(l.size(), Ordering::Relaxed); unsafe { System.alloc_zeroed(l) } }
        unsafe fn realloc(&self, p: *mut u8, l: Layout, n: usize) -> *mut u8 { MAX_REQ.fetch_max(n, Ordering::Relaxed); unsafe { System.realloc(p, l, n) } }
    }
    pub fn reset() { MAX_REQ.store(0, Ordering::Relaxed); }
    pub fn max() -> usize { MAX_REQ.load(Ordering::Relaxed) }
}
#[global_allocator]
static ALLOC: alloc_track::Tracking = alloc_track::Tracking;

mod oracles;
mod storm_mod;

fn main() {
    let args: Vec<String> = std::env::args().collect();
    if args.len() < 2 {
        eprintln!("usage: wrv-replay <oracle> [seed] [args..]");
        std::process::exit(2);
    }
    let seed: u64 = args.get(2).and_then(|s| s.parse().ok()).unwrap_or(0);
    let rest: Vec<String> = args.iter().skip(3).cloned().collect();
    let out = oracles::run(&args[1], seed, &rest);
    println!("{}", out);
}
