use crate::refimpl::*;
use std::panic;

fn js(s: &str) -> String { format!("{:?}", s) }

fn fail(oracle: &str, input: String, observed: String, expected: String) -> String {
    format!("{{\"oracle\":{},\"failing_input\":{},\"observed\":{},\"expected\":{}}}", js(oracle), js(&input), js(&observed), js(&expected))
}
fn none(oracle: &str, tried: usize) -> String {
    format!("{{\"oracle\":{},\"failing_input\":null,\"tried\":{}}}", js(oracle), tried)
}

pub fn run(name: &str, seed: u64, rest: &[String]) -> String {
    panic::set_hook(Box::new(|_| {}));
    match name {
        "crypt_table" => crypt_table_oracle(),
        "hash" => hash_oracle(seed),
        "cipher" => cipher_oracle(seed),
        "tile" => tile_oracle(),
        _ => { let _ = rest; format!("{{\"oracle\":{},\"error\":\"unknown oracle\"}}", js(name)) }
    }
}

fn crypt_table_oracle() -> String {
    let r = crypt_table();
    for i in 0..0x500 {
        let got = wow_mpq::crypto::ENCRYPTION_TABLE[i];
        if got != r[i] {
            return fail("crypt_table", format!("index {}", i), format!("{:#010x}", got), format!("{:#010x}", r[i]));
        }
    }
    none("crypt_table", 0x500)
}

fn hash_oracle(seed: u64) -> String {
    let mut rng = Rng(seed ^ 0x9E3779B97F4A7C15);
    let mut tried = 0;
    let mut names: Vec<String> = vec!["".into(), "(listfile)".into(), "(hash table)".into(), "a/b\\C.txt".into(),
        "z".into(), "{".into(), "`".into(), "@".into(), "[".into(), "/".into(), "\\".into()];
    for b in 0u8..128 { names.push((b as char).to_string()); }
    for _ in 0..400 {
        let n = (rng.next() % 24) as usize;
        let s: String = (0..n).map(|_| ((rng.next() % 96) as u8 + 32) as char).collect();
        names.push(s);
    }
    for s in &names {
        for t in [0u32, 0x100, 0x200, 0x300, 0x400] {
            tried += 1;
            let got = wow_mpq::crypto::hash_string(s, t);
            let want = hash(s.as_bytes(), t);
            if got != want {
                return fail("hash", format!("hash_string({:?}, {:#x})", s, t), format!("{:#010x}", got), format!("{:#010x} (reference MPQ hash)", want));
            }
            let alt: String = s.chars().map(|c| if c == '/' { '\\' } else if c == '\\' { '/' } else if c.is_ascii_lowercase() { c.to_ascii_uppercase() } else { c.to_ascii_lowercase() }).collect();
            let got2 = wow_mpq::crypto::hash_string(&alt, t);
            if got2 != got {
                return fail("hash", format!("hash_string({:?}) vs hash_string({:?}), type {:#x}", s, alt, t), format!("{:#010x} vs {:#010x}", got, got2), "equal (case/slash invariance)".into());
            }
        }
    }
    none("hash", tried)
}

fn cipher_oracle(seed: u64) -> String {
    let mut rng = Rng(seed ^ 0xD1B54A32D192ED03);
    let mut tried = 0;
    let mut keys: Vec<u32> = vec![0, 1, 0xFF, 0x100, 0x7FF, 0x800, 0xFFFFFFFF, 0xC3AF3770, 0xEC83B3A3, 0x80000000];
    for _ in 0..60 { keys.push(rng.next() as u32); }
    for &k in &keys {
        for n in [0usize, 1, 2, 3, 5, 8, 17] {
            tried += 1;
            let p: Vec<u32> = (0..n).map(|_| rng.next() as u32).collect();
            let mut c = p.clone();
            wow_mpq::crypto::encrypt_block(&mut c, k);
            let want = encrypt(&p, k);
            if c != want {
                return fail("cipher", format!("encrypt_block({:x?}, key={:#x})", p, k), format!("{:x?}", c), format!("{:x?} (reference EncryptMpqBlock)", want));
            }
            let mut d = c.clone();
            wow_mpq::crypto::decrypt_block(&mut d, k);
            if d != p {
                return fail("cipher", format!("decrypt_block(encrypt_block({:x?}, key={:#x}))", p, k), format!("{:x?}", d), format!("{:x?}", p));
            }
            let want_d = decrypt(&p, k);
            let mut d2 = p.clone();
            wow_mpq::crypto::decrypt_block(&mut d2, k);
            if d2 != want_d {
                return fail("cipher", format!("decrypt_block({:x?}, key={:#x})", p, k), format!("{:x?}", d2), format!("{:x?} (reference DecryptMpqBlock)", want_d));
            }
            if n > 0 {
                let dd = wow_mpq::crypto::decrypt_dword(p[0], k);
                if dd != want_d[0] {
                    return fail("cipher", format!("decrypt_dword({:#x}, key={:#x})", p[0], k), format!("{:#x}", dd), format!("{:#x}", want_d[0]));
                }
            }
        }
    }
    none("cipher", tried)
}

fn tile_oracle() -> String {
    let mut bad = Vec::new();
    for x in 0..64u32 { for y in 0..64u32 {
        let (wx, wy) = wow_wdt::tile_to_world(x, y);
        let (tx, ty) = wow_wdt::world_to_tile(wx, wy);
        if (tx, ty) != (x, y) { bad.push(format!("({},{})->({},{})", x, y, tx, ty)); }
    }}
    if bad.is_empty() { none("tile", 4096) } else {
        fail("tile", format!("{} of 4096 tiles, first {}", bad.len(), bad[0]), bad[..bad.len().min(8)].join(" "), "identity".into())
    }
}
