use crate::refimpl::*;
use std::panic;

fn js(s: &str) -> String {
    // JSON string: Rust's {:?} escapes are JSON-compatible for printable ASCII; everything else is replaced
    let clean: String = s.chars().map(|c| if c == '\n' { ' ' } else if c.is_ascii_graphic() || c == ' ' { c } else { '?' }).collect();
    format!("{:?}", clean)
}

fn fail(oracle: &str, input: String, observed: String, expected: String) -> String {
    format!("{{\"oracle\":{},\"failing_input\":{},\"observed\":{},\"expected\":{}}}", js(oracle), js(&input), js(&observed), js(&expected))
}
fn none(oracle: &str, tried: usize) -> String {
    format!("{{\"oracle\":{},\"failing_input\":null,\"tried\":{}}}", js(oracle), tried)
}

pub fn run(name: &str, seed: u64, rest: &[String]) -> String {
    if std::env::var("WRV_PANIC").is_err() { panic::set_hook(Box::new(|_| {})); }
    match name {
        "crypt_table" => crypt_table_oracle(),
        "hash" => hash_oracle(seed),
        "cipher" => cipher_oracle(seed),
        "tile" => tile_oracle(),
        "rle_total" => rle_total(seed),
        "sparse" => sparse_oracle(seed),
        "compress_rule" => compress_rule(seed),
        "mod_model" => mod_model(seed),
        "patch_verify" => patch_verify(seed),
        "chain_model" => chain_model(seed),
        "chain_patch" => chain_patch(seed),
        "bsd0_total" => bsd0_total(seed),
        "dbc_header" => dbc_header(seed),
        "dbc_strings" => dbc_strings(seed),
        "dbc_keys" => dbc_keys(seed),
        "dbc_writer" => dbc_writer(seed),
        "blp_total" => blp_total(seed),
        "blp_mips" => blp_mips(),
        "wdt_roundtrip" => wdt_roundtrip(seed),
        "ffi_cursor" => ffi_cursor(seed),
        "m2_records" => m2_records(seed),
        "mpq_interop" => mpq_interop(seed),
        "adt_offsets" => adt_offsets(seed),
        "f1_stored_multisector" => f1_stored_multisector(),
        "wdl_roundtrip" => wdl_roundtrip(seed),
        "blp_alpha" => blp_codec(seed, true),
        "blp_header" => blp_codec(seed, false),
        "mod_full" => mod_full(),
        "build_lookup" => build_lookup(seed),
        "wmo_roundtrip" => wmo_roundtrip(seed),
        "adpcm" => adpcm_oracle(seed),
        "dbc_paths" => dbc_paths(seed),
        "extract_paths" => extract_paths(seed),
        "m2_model" => m2_model(seed),
        "alloc_bound" => alloc_bound(rest.first().map(|s| s.as_str()).unwrap_or("")),
        "adt_water" => adt_water(seed),
        "mod_options" => mod_options(seed),
        "interop_dirs" => interop_dirs(),
        "cli_extract" => cli_extract(rest.first().map(|s| s.as_str()).unwrap_or("")),
        "wmo_known" => wmo_known(rest.first().map(|s| s.as_str()).unwrap_or("")),
        _ => { let _ = rest; format!("{{\"oracle\":{},\"error\":\"unknown oracle\"}}", js(name)) }
    }
}

fn crypt_table_oracle() -> String {
    let r = crypt_table();
    for i in 0..0x500 {
        let got = wow_mpq::crypto::ENCRYPTION_TABLE[i];
        if got != r[i] {
            return fail("crypt_table", format!("index {}", i), format!("{:#010x}", got), format!("{:#010x}", r[i]));
        }
    }
    none("crypt_table", 0x500)
}

fn hash_oracle(seed: u64) -> String {
    let mut rng = Rng(seed ^ 0x9E3779B97F4A7C15);
    let mut tried = 0;
    let mut names: Vec<String> = vec!["".into(), "(listfile)".into(), "(hash table)".into(), "a/b\\C.txt".into(),
        "z".into(), "{".into(), "`".into(), "@".into(), "[".into(), "/".into(), "\\".into()];
    for b in 0u8..128 { names.push((b as char).to_string()); }
    // names outside ASCII: every byte of a multi-byte character enters the hashes unchanged
    for s in ["M\u{fc}ller\\\u{e9}.txt", "Interface\\AddOns\\M\u{fc}ller\\M\u{fc}ller.toc", "\u{65e5}\u{672c}\u{8a9e}/\u{30d5}.blp", "\u{e9}", "a\u{df}z"] { names.push(s.into()); }
    for _ in 0..400 {
        let n = (rng.next() % 24) as usize;
        let s: String = (0..n).map(|_| ((rng.next() % 96) as u8 + 32) as char).collect();
        names.push(s);
    }
    for s in &names {
        for t in [0u32, 0x100, 0x200, 0x300, 0x400] {
            tried += 1;
            let got = wow_mpq::crypto::hash_string(s, t);
            let want = hash(s.as_bytes(), t);
            if got != want {
                return fail("hash", format!("hash_string({:?}, {:#x})", s, t), format!("{:#010x}", got), format!("{:#010x} (reference MPQ hash)", want));
            }
            let alt: String = s.chars().map(|c| if c == '/' { '\\' } else if c == '\\' { '/' } else if c.is_ascii_lowercase() { c.to_ascii_uppercase() } else { c.to_ascii_lowercase() }).collect();
            if t == 0 {
                let j = wow_mpq::crypto::jenkins_hash(s);
                if j != oaat(s.as_bytes()) { return fail("hash", format!("jenkins_one_at_a_time({:?})", s), format!("{:#018x}", j), format!("{:#018x} (reference one-at-a-time)", oaat(s.as_bytes()))); }
                if wow_mpq::crypto::jenkins_hash(&alt) != j { return fail("hash", format!("jenkins_one_at_a_time({:?}) vs ({:?})", s, alt), "different".into(), "equal (case/slash invariance)".into()); }
                for bits in [8u32, 9, 16, 31, 32, 33, 48, 63, 64] {
                    let (fh, nh) = wow_mpq::crypto::het_hash(s, bits);
                    let up: Vec<u8> = s.bytes().map(fold).collect();
                    let (c, b) = hashlittle2(&up, 2, 1);
                    let full = ((b as u64) << 32) | c as u64;
                    let want = if bits < 64 { (full & ((1u64 << bits) - 1)) | (1u64 << (bits - 1)) } else { full };
                    let wn = if bits < 64 { ((want >> (bits - 8)) & 0xFF) as u8 } else { (want >> 56) as u8 };
                    if fh != want || nh != wn { return fail("hash", format!("jenkins_hashlittle2({:?}, {} bits)", s, bits), format!("({:#x}, {:#x})", fh, nh), format!("({:#x}, {:#x}) (reference lookup3 hashlittle2 of the folded name)", want, wn)); }
                    if wow_mpq::crypto::het_hash(&alt, bits) != (fh, nh) { return fail("hash", format!("jenkins_hashlittle2({:?}) vs ({:?}), {} bits", s, alt, bits), "different".into(), "equal (case/slash invariance)".into()); }
                }
            }
            let got2 = wow_mpq::crypto::hash_string(&alt, t);
            if got2 != got {
                return fail("hash", format!("hash_string({:?}) vs hash_string({:?}), type {:#x}", s, alt, t), format!("{:#010x} vs {:#010x}", got, got2), "equal (case/slash invariance)".into());
            }
        }
    }
    none("hash", tried)
}

fn cipher_oracle(seed: u64) -> String {
    let mut rng = Rng(seed ^ 0xD1B54A32D192ED03);
    let mut tried = 0;
    let mut keys: Vec<u32> = vec![0, 1, 0xFF, 0x100, 0x7FF, 0x800, 0xFFFFFFFF, 0xC3AF3770, 0xEC83B3A3, 0x80000000];
    for _ in 0..60 { keys.push(rng.next() as u32); }
    for &k in &keys {
        for n in [0usize, 1, 2, 3, 5, 8, 17] {
            tried += 1;
            let p: Vec<u32> = (0..n).map(|_| rng.next() as u32).collect();
            let mut c = p.clone();
            wow_mpq::crypto::encrypt_block(&mut c, k);
            let want = encrypt(&p, k);
            if c != want {
                return fail("cipher", format!("encrypt_block({:x?}, key={:#x})", p, k), format!("{:x?}", c), format!("{:x?} (reference EncryptMpqBlock)", want));
            }
            let mut d = c.clone();
            wow_mpq::crypto::decrypt_block(&mut d, k);
            if d != p {
                return fail("cipher", format!("decrypt_block(encrypt_block({:x?}, key={:#x}))", p, k), format!("{:x?}", d), format!("{:x?}", p));
            }
            let want_d = decrypt(&p, k);
            let mut d2 = p.clone();
            wow_mpq::crypto::decrypt_block(&mut d2, k);
            if d2 != want_d {
                return fail("cipher", format!("decrypt_block({:x?}, key={:#x})", p, k), format!("{:x?}", d2), format!("{:x?} (reference DecryptMpqBlock)", want_d));
            }
            if n > 0 {
                let dd = wow_mpq::crypto::decrypt_dword(p[0], k);
                if dd != want_d[0] {
                    return fail("cipher", format!("decrypt_dword({:#x}, key={:#x})", p[0], k), format!("{:#x}", dd), format!("{:#x}", want_d[0]));
                }
            }
        }
    }
    none("cipher", tried)
}

fn tile_oracle() -> String {
    let mut bad = Vec::new();
    for x in 0..64u32 { for y in 0..64u32 {
        let (wx, wy) = wow_wdt::tile_to_world(x, y);
        let (tx, ty) = wow_wdt::world_to_tile(wx, wy);
        if (tx, ty) != (x, y) { bad.push(format!("({},{})->({},{})", x, y, tx, ty)); }
    }}
    if bad.is_empty() { none("tile", 4096) } else {
        fail("tile", format!("{} of 4096 tiles, first {}", bad.len(), bad[0]), bad[..bad.len().min(8)].join(" "), "identity".into())
    }
}

fn catch<T>(f: impl FnOnce() -> T + panic::UnwindSafe) -> Result<T, String> {
    panic::catch_unwind(f).map_err(|e| {
        if let Some(s) = e.downcast_ref::<String>() { s.clone() } else if let Some(s) = e.downcast_ref::<&str>() { s.to_string() } else { "panic".into() }
    })
}

fn rle_total(seed: u64) -> String {
    let mut rng = Rng(seed ^ 0xA5A5A5A5);
    let mut cases: Vec<(Vec<u8>, usize, bool)> = vec![
        (vec![], 0, false), (vec![], 4, true), (vec![0x85, 0x41], 8, false), (vec![0xFF], 300, false), (vec![0x7F], 1, false),
        (vec![0, 0, 0, 0, 0x85, 0x41], 8, true), (vec![0x80], 1, false), (vec![0xFF; 3], 2, false),
    ];
    for _ in 0..3000 {
        let n = (rng.next() % 12) as usize;
        cases.push((rng.bytes(n), (rng.next() % 300) as usize, rng.next() % 2 == 0));
    }
    let tried = cases.len();
    for (data, size, hdr) in cases {
        let d2 = data.clone();
        let r = catch(move || wow_mpq::compression::rle::decompress(&d2, size, hdr).map(|v| v.len()));
        match r {
            Err(p) => return fail("rle_total", format!("rle::decompress({:02x?}, {}, {})", data, size, hdr), format!("panic: {}", p), "Ok or Err, no panic".into()),
            Ok(Ok(l)) if l != size => return fail("rle_total", format!("rle::decompress({:02x?}, {}, {})", data, size, hdr), format!("len {}", l), format!("len {}", size)),
            _ => {}
        }
    }
    none("rle_total", tried)
}

fn sparse_inputs(rng: &mut Rng) -> Vec<Vec<u8>> {
    let mut v: Vec<Vec<u8>> = Vec::new();
    // boundary shapes: literal runs and zero runs around 0x80..0x86, with context that makes sparse pay off
    for run in [1usize, 2, 3, 4, 0x7F, 0x80, 0x81, 0x82, 0x83, 0x100, 0x101, 0x181] {
        for zeros in [0usize, 1, 2, 3, 4, 0x80, 0x81, 0x82, 0x83, 0x84, 0x85, 0x86, 0x87, 0x104, 0x105, 0x108, 0x200] {
            let mut d = vec![7u8; run];
            d.extend(std::iter::repeat(0).take(zeros));
            d.extend([9u8, 9]);
            d.extend(std::iter::repeat(0).take(300));
            v.push(d.clone());
            let mut e = vec![0u8; zeros];
            e.extend(vec![5u8; run]);
            e.extend(std::iter::repeat(0).take(200));
            v.push(e);
            let mut f = vec![0u8; 300];
            f.extend(vec![3u8; run.min(3)]);
            v.push(f);
        }
    }
    for _ in 0..300 {
        let n = (rng.next() % 600) as usize;
        let density = rng.next() % 8;
        v.push((0..n).map(|_| if rng.next() % 8 < density { 0 } else { (rng.next() >> 11) as u8 }).collect());
    }
    v
}

fn sparse_oracle(seed: u64) -> String {
    let mut rng = Rng(seed ^ 0x5151);
    let inputs = sparse_inputs(&mut rng);
    let mut tried = 0;
    let m = wow_mpq::compression::flags::SPARSE;
    for d in &inputs {
        tried += 1;
        let d2 = d.clone();
        let r = catch(move || wow_mpq::compression::compress(&d2, m));
        let c = match r { Err(p) => return fail("sparse", format!("compress(len {} data {:02x?}.., SPARSE)", d.len(), &d[..d.len().min(16)]), format!("panic: {}", p), "no panic".into()), Ok(Err(_)) => continue, Ok(Ok(c)) => c };
        if c.len() < d.len() {
            let c2 = c.clone(); let n = d.len();
            let r = catch(move || wow_mpq::compression::decompress(&c2[1..], c2[0], n));
            match r {
                Err(p) => return fail("sparse", format!("decompress(compress(x)) with |x|={} x[..16]={:02x?}", d.len(), &d[..d.len().min(16)]), format!("panic: {}", p), "x".into()),
                Ok(Err(e)) => return fail("sparse", format!("decompress(compress(x)) with |x|={} x[..16]={:02x?}", d.len(), &d[..d.len().min(16)]), format!("Err({})", e), "Ok(x)".into()),
                Ok(Ok(back)) => if &back != d { return fail("sparse", format!("decompress(compress(x)) with |x|={} x[..16]={:02x?}", d.len(), &d[..d.len().min(16)]), format!("different bytes (len {})", back.len()), "x".into()); }
            }
        }
    }
    // decoder totality on arbitrary bytes
    for _ in 0..3000 {
        tried += 1;
        let n = (rng.next() % 14) as usize;
        let b = rng.bytes(n);
        let sz = (rng.next() % 400) as usize;
        let b2 = b.clone();
        let r = catch(move || wow_mpq::compression::decompress(&b2, m, sz).map(|v| v.len()));
        if let Err(p) = r { return fail("sparse", format!("decompress({:02x?}, SPARSE, {})", b, sz), format!("panic: {}", p), "Ok or Err".into()); }
    }
    none("sparse", tried)
}

fn compress_rule(seed: u64) -> String {
    use wow_mpq::compression::flags;
    let mut rng = Rng(seed ^ 0xC0FFEE);
    let mut inputs: Vec<Vec<u8>> = Vec::new();
    for n in 0..80usize { inputs.push((0..n).map(|i| b"the quick brown fox jumps over the lazy dog "[i % 44]).collect()); }
    for n in [4usize, 8, 12, 16, 20, 24, 32] { for z in 3..12usize { let mut d = vec![1u8; n / 2]; d.extend(vec![0u8; z]); d.extend(vec![2u8; n / 2]); inputs.push(d); } }
    for _ in 0..60 { let n = (rng.next() % 200) as usize; inputs.push(rng.bytes(n)); }
    let mut tried = 0;
    for d in &inputs {
        for m in [flags::ZLIB, flags::BZIP2, flags::SPARSE, flags::LZMA] {
            tried += 1;
            let d2 = d.clone();
            let c = match catch(move || wow_mpq::compression::compress(&d2, m)) { Ok(Ok(c)) => c, Ok(Err(_)) => continue,
                Err(p) => return fail("compress_rule", format!("compress({:02x?}, {:#x})", d, m), format!("panic: {}", p), "no panic".into()) };
            if c.len() > d.len() { return fail("compress_rule", format!("compress({:02x?}, {:#x})", d, m), format!("stored {} bytes", c.len()), format!("<= {} bytes", d.len())); }
            if c.len() == d.len() && &c != d { return fail("compress_rule", format!("compress({:02x?}, {:#x})", d, m), "same length as input but not the raw bytes (reader treats equal length as raw)".into(), "raw bytes".into()); }
            if c.len() < d.len() && c[0] != m { return fail("compress_rule", format!("compress({:02x?}, {:#x})", d, m), format!("prefix {:#x}", c[0]), format!("prefix {:#x}", m)); }
        }
    }
    none("compress_rule", tried)
}

use std::collections::BTreeMap;

/// names whose TABLE_OFFSET hash falls into the same home slot of a 16-slot table (collision chains),
/// including chains that start in the last slot and wrap around
fn colliding_names(slot: u32, count: usize) -> Vec<String> {
    let mut v = Vec::new();
    let mut i = 0u32;
    while v.len() < count {
        let n = format!("f{:05}.dat", i);
        if wow_mpq::crypto::hash_string(&n, 0) & 15 == slot { v.push(n); }
        i += 1;
    }
    v
}

fn with_timeout<T: Send + 'static>(secs: u64, f: impl FnOnce() -> T + Send + 'static) -> Option<T> {
    let (tx, rx) = std::sync::mpsc::channel();
    std::thread::spawn(move || { let _ = tx.send(f()); });
    rx.recv_timeout(std::time::Duration::from_secs(secs)).ok()
}

/// random add/replace/remove/rename sequences on a small archive with forced hash collisions,
/// compared with a plain map after close + reopen
fn mod_model(seed: u64) -> String {
    use wow_mpq::{ArchiveBuilder, Archive, MutableArchive, AddFileOptions, ListfileOption};
    let mut rng = Rng(seed ^ 0x60D);
    let mut tried = 0;
    for round in 0..40u64 {
        let slot = if round % 2 == 0 { 15 } else { (rng.next() % 16) as u32 };
        let names = colliding_names(slot, 5);
        let dir = tempfile::tempdir().unwrap();
        let path = dir.path().join("m.mpq");
        let mut model: BTreeMap<String, Vec<u8>> = BTreeMap::new();
        let mut b = ArchiveBuilder::new().listfile_option(ListfileOption::None);
        for (i, n) in names.iter().take(2).enumerate() { let d = vec![i as u8 + 1; 10 + i]; b = b.add_file_data(d.clone(), n); model.insert(n.clone(), d); }
        b = b.add_file_data(vec![9u8; 7], "untouched.bin"); model.insert("untouched.bin".into(), vec![9u8; 7]);
        if b.build(&path).is_err() { continue; }
        let mut log: Vec<String> = Vec::new();
        let steps = 3 + (rng.next() % 6) as usize;
        let p2 = path.clone();
        let names2 = names.clone();
        let mut ops: Vec<(u8, usize, usize, u8)> = Vec::new();
        for _ in 0..steps { ops.push(((rng.next() % 5) as u8, (rng.next() % 5) as usize, (rng.next() % 5) as usize, (rng.next() % 200) as u8)); }
        let ops2 = ops.clone();
        let model0 = model.clone();
        let r = with_timeout(30, move || -> Result<(BTreeMap<String, Vec<u8>>, Vec<String>), String> {
            let mut model = model0;
            let mut log = Vec::new();
            let mut m = MutableArchive::open(&p2).map_err(|e| format!("open: {}", e))?;
            for (op, i, j, v) in ops2 {
                let n = &names2[i];
                match op {
                    0 | 1 => { let d = vec![v; 5 + i];
                        let r = m.add_file_data(&d, n, AddFileOptions::new().replace_existing(true));
                        log.push(format!("add({}) -> {}", n, r.is_ok()));
                        if r.is_ok() { model.insert(n.clone(), d); } }
                    4 => { let d = vec![v; 3 + i];
                        let r = m.add_file_data(&d, n, AddFileOptions::new().replace_existing(false));
                        log.push(format!("add_no_replace({}) -> {}", n, r.is_ok()));
                        if r.is_ok() == model.contains_key(n) { return Err(format!("add({}, replace_existing(false)) returned {} but the map model has key: {}", n, r.is_ok(), model.contains_key(n))); }
                        if r.is_ok() { model.insert(n.clone(), d); } }
                    2 => { let r = m.remove_file(n); log.push(format!("remove({}) -> {}", n, r.is_ok()));
                        if r.is_ok() != model.contains_key(n) { return Err(format!("remove({}) returned {} but model has key: {}", n, r.is_ok(), model.contains_key(n))); }
                        if r.is_ok() { model.remove(n); } }
                    _ => { let t = &names2[j]; let r = m.rename_file(n, t); log.push(format!("rename({}, {}) -> {}", n, t, r.is_ok()));
                        let expect = model.contains_key(n) && !model.contains_key(t);
                        if r.is_ok() != expect { return Err(format!("rename({}, {}) returned {} but the map model says {}", n, t, r.is_ok(), expect)); }
                        if r.is_ok() { let d = model.remove(n).unwrap(); model.insert(t.clone(), d); } }
                }
            }
            m.flush().map_err(|e| format!("flush: {}", e))?;
            drop(m);
            Ok((model, log))
        });
        tried += 1;
        let (model2, log2) = match r {
            None => return fail("mod_model", format!("slot {} names {:?} ops {:?}", slot, names, ops), "an operation did not terminate within 30 s".into(), "every operation terminates".into()),
            Some(Err(e)) => return fail("mod_model", format!("slot {} names {:?} ops {:?}", slot, names, ops), e, "agreement with a plain map".into()),
            Some(Ok(x)) => x,
        };
        log = log2; model = model2;
        let mut a = match Archive::open(&path) { Ok(a) => a, Err(e) => return fail("mod_model", format!("{:?}", log), format!("reopen failed: {}", e), "archive reopens".into()) };
        let mut all: Vec<String> = names.clone(); all.push("untouched.bin".into());
        for n in &all {
            let got = a.read_file(n).ok();
            let want = model.get(n).cloned();
            if got != want {
                return fail("mod_model", format!("names with equal home slot {}: {:?}; ops: {:?}", slot, names, log),
                    format!("after reopen read_file({}) = {:?}", n, got.map(|g| g.len())), format!("{:?} (plain map model)", want.map(|g| g.len())));
            }
        }
    }
    // several sessions on one archive, a rename onto a name added in the same session, compact followed by another change
    {
        let dir = tempfile::tempdir().unwrap();
        let path = dir.path().join("sess.mpq");
        let b = ArchiveBuilder::new().listfile_option(ListfileOption::Generate).add_file_data(vec![1u8; 700], "one.txt").add_file_data(vec![2u8; 300], "two.txt");
        if b.build(&path).is_ok() {
            let p2 = path.clone();
            let r = with_timeout(60, move || -> Result<BTreeMap<String, Vec<u8>>, String> {
                let mut model: BTreeMap<String, Vec<u8>> = BTreeMap::new();
                model.insert("one.txt".into(), vec![1u8; 700]); model.insert("two.txt".into(), vec![2u8; 300]);
                {   // session 1
                    let mut m = MutableArchive::open(&p2).map_err(|e| format!("open 1: {}", e))?;
                    m.add_file_data(&vec![3u8; 900], "three.txt", AddFileOptions::new()).map_err(|e| format!("add three: {}", e))?; model.insert("three.txt".into(), vec![3u8; 900]);
                    m.add_file_data(&vec![4u8; 50], "four.txt", AddFileOptions::new()).map_err(|e| format!("add four: {}", e))?; model.insert("four.txt".into(), vec![4u8; 50]);
                    if m.rename_file("one.txt", "four.txt").is_ok() { return Err("rename_file(one.txt, four.txt) succeeded although four.txt was added in this session".into()); }
                    m.remove_file("two.txt").map_err(|e| format!("remove two: {}", e))?; model.remove("two.txt");
                    if m.rename_file("three.txt", "two.txt").is_err() { return Err("rename_file(three.txt, two.txt) failed although two.txt was removed in this session".into()); }
                    let d = model.remove("three.txt").unwrap(); model.insert("two.txt".into(), d);
                    m.flush().map_err(|e| format!("flush 1: {}", e))?;
                }
                {   // session 2: the first addition must not land on data written by session 1
                    let mut m = MutableArchive::open(&p2).map_err(|e| format!("open 2: {}", e))?;
                    m.add_file_data(&vec![5u8; 1200], "five.txt", AddFileOptions::new()).map_err(|e| format!("add five: {}", e))?; model.insert("five.txt".into(), vec![5u8; 1200]);
                    m.flush().map_err(|e| format!("flush 2: {}", e))?;
                }
                {   // session 3: compact, then one more change on the same handle
                    let mut m = MutableArchive::open(&p2).map_err(|e| format!("open 3: {}", e))?;
                    m.remove_file("four.txt").map_err(|e| format!("remove four: {}", e))?; model.remove("four.txt");
                    m.flush().map_err(|e| format!("flush 3a: {}", e))?;
                }
                {
                    let mut m = MutableArchive::open(&p2).map_err(|e| format!("open 4: {}", e))?;
                    m.compact().map_err(|e| format!("compact: {}", e))?;
                    m.add_file_data(&vec![6u8; 77], "six.txt", AddFileOptions::new()).map_err(|e| format!("add six after compact: {}", e))?; model.insert("six.txt".into(), vec![6u8; 77]);
                    m.flush().map_err(|e| format!("flush 4: {}", e))?;
                }
                Ok(model)
            });
            tried += 1;
            let desc = "sessions: [add three, add four, rename one->four (must fail), remove two, rename three->two, flush] [add five, flush] [remove four, flush] [compact, add six, flush]";
            match r {
                None => return fail("mod_model", desc.into(), "an operation did not terminate within 60 s".into(), "every operation terminates".into()),
                Some(Err(e)) => return fail("mod_model", desc.into(), e, "agreement with a plain map".into()),
                Some(Ok(model)) => {
                    let mut a = match Archive::open(&path) { Ok(a) => a, Err(e) => return fail("mod_model", desc.into(), format!("reopen failed: {}", e), "archive reopens".into()) };
                    for (n, d) in &model { let got = a.read_file(n).ok(); if got.as_ref() != Some(d) { return fail("mod_model", desc.into(), format!("after reopen read_file({}) = {:?} bytes starting {:?}", n, got.as_ref().map(|g| g.len()), got.as_ref().and_then(|g| g.first().copied())), format!("{} bytes of {}", d.len(), d[0])); } }
                    for n in ["three.txt", "four.txt"] { if a.read_file(n).is_ok() { return fail("mod_model", desc.into(), format!("read_file({}) is Ok after it was renamed/removed", n), "not found".into()); } }
                }
            }
        }
    }
    // hash table without a never-used slot: fill the table through the editor, tombstone two entries, then look up / remove /
    // rename an absent name, refill, and add once more (must be refused); everything must return and agree with the map
    {
        let dir = tempfile::tempdir().unwrap();
        let path = dir.path().join("full.mpq");
        let b = ArchiveBuilder::new().listfile_option(ListfileOption::None).add_file_data(vec![1u8; 5], "seed0.bin").add_file_data(vec![2u8; 6], "seed1.bin");
        if b.build(&path).is_ok() {
            let p2 = path.clone();
            let r = with_timeout(40, move || -> Result<BTreeMap<String, Vec<u8>>, String> {
                let mut model: BTreeMap<String, Vec<u8>> = BTreeMap::new();
                model.insert("seed0.bin".into(), vec![1u8; 5]); model.insert("seed1.bin".into(), vec![2u8; 6]);
                let mut m = MutableArchive::open(&p2).map_err(|e| format!("open: {}", e))?;
                let mut i = 0u8;
                loop {
                    let n = format!("fill{:02}.bin", i); let d = vec![i; 4 + (i as usize % 3)];
                    match m.add_file_data(&d, &n, AddFileOptions::new()) { Ok(_) => { model.insert(n, d); } Err(_) => break }
                    i += 1;
                    if i > 40 { return Err("more than 40 additions accepted by a table built for 2 files".into()); }
                }
                for n in ["fill00.bin", "fill03.bin"] { if model.contains_key(n) { m.remove_file(n).map_err(|e| format!("remove({}): {}", n, e))?; model.remove(n); } }
                if m.find_file("absent-name.bin").map_err(|e| format!("find_file(absent): {}", e))?.is_some() { return Err("find_file(absent-name.bin) found something".into()); }
                if m.remove_file("absent-name.bin").is_ok() { return Err("remove_file(absent-name.bin) succeeded".into()); }
                if m.rename_file("absent-name.bin", "other.bin").is_ok() { return Err("rename_file(absent-name.bin) succeeded".into()); }
                for n in ["re0.bin", "re1.bin"] { let d = vec![0xEEu8; 9]; if m.add_file_data(&d, n, AddFileOptions::new()).is_ok() { model.insert(n.to_string(), d); } }
                let _ = m.add_file_data(&[1, 2, 3], "overflow.bin", AddFileOptions::new()).map(|_| model.insert("overflow.bin".into(), vec![1, 2, 3]));
                m.flush().map_err(|e| format!("flush: {}", e))?;
                Ok(model)
            });
            tried += 1;
            match r {
                None => return fail("mod_model", "2-file archive; add fillNN.bin until refused; remove fill00/fill03; find/remove/rename an absent name".into(), "an operation did not terminate within 40 s".into(), "every operation terminates".into()),
                Some(Err(e)) => return fail("mod_model", "2-file archive filled through the editor, two removals, absent-name operations".into(), e, "agreement with a plain map".into()),
                Some(Ok(model)) => {
                    let mut a = match Archive::open(&path) { Ok(a) => a, Err(e) => return fail("mod_model", "full-table scenario".into(), format!("reopen failed: {}", e), "archive reopens".into()) };
                    for (n, d) in &model { if a.read_file(n).ok().as_ref() != Some(d) { return fail("mod_model", "2-file archive filled through the editor, two removals, re-additions".into(), format!("after reopen read_file({}) differs", n), "the map model's content".into()); } }
                    for n in ["fill00.bin", "fill03.bin", "absent-name.bin"] { if !model.contains_key(n) && a.read_file(n).is_ok() { return fail("mod_model", "full-table scenario".into(), format!("read_file({}) is Ok after removal", n), "not found".into()); } }
                }
            }
        }
    }
    none("mod_model", tried)
}

/// F6: adding into a MutableArchive whose 16-slot hash table is full must return (Ok or Err), not hang
fn mod_full() -> String {
    use wow_mpq::{ArchiveBuilder, MutableArchive, AddFileOptions, ListfileOption};
    let dir = tempfile::tempdir().unwrap();
    let path = dir.path().join("full.mpq");
    let mut b = ArchiveBuilder::new().listfile_option(ListfileOption::None);
    for i in 0..8 { b = b.add_file_data(vec![i as u8; 4], &format!("init{}.bin", i)); }
    if let Err(e) = b.build(&path) { return format!("{{\"oracle\":\"mod_full\",\"error\":{:?}}}", e.to_string()); }
    let r = with_timeout(20, move || {
        let mut m = MutableArchive::open(&path).unwrap();
        let mut res = Vec::new();
        for i in 0..12 { res.push(m.add_file_data(&[1, 2, 3], &format!("extra{}.bin", i), AddFileOptions::new()).is_ok()); }
        let _ = dir; res
    });
    match r {
        None => fail("mod_full", "8 files in a 16-slot table, then 12 x add_file_data".into(), "add_file_data did not return within 20 s (probe loop never exits on a full table)".into(), "Ok or Err".into()),
        Some(_) => none("mod_full", 12),
    }
}

/// build -> open: every added name is found under case/slash variants, including collision chains that wrap
fn build_lookup(seed: u64) -> String {
    use wow_mpq::{ArchiveBuilder, Archive, ListfileOption};
    let mut rng = Rng(seed ^ 0xB17D);
    let mut tried = 0;
    for round in 0..24u64 {
        let slot = if round % 2 == 0 { 15 } else { (rng.next() % 16) as u32 };
        let mut names = colliding_names(slot, 3);
        names.push(format!("Dir\\Sub\\File{}.TXT", round));
        let dir = tempfile::tempdir().unwrap();
        let path = dir.path().join("b.mpq");
        let mut b = ArchiveBuilder::new().listfile_option(if round % 3 == 0 { ListfileOption::Generate } else { ListfileOption::None });
        for (i, n) in names.iter().enumerate() { b = b.add_file_data(vec![i as u8 + 1; 20 + i], n); }
        if let Err(e) = b.build(&path) { return fail("build_lookup", format!("{:?}", names), format!("build failed: {}", e), "Ok".into()); }
        let mut a = match Archive::open(&path) { Ok(a) => a, Err(e) => return fail("build_lookup", format!("{:?}", names), format!("open failed: {}", e), "Ok".into()) };
        for (i, n) in names.iter().enumerate() {
            for variant in [n.clone(), n.to_ascii_uppercase(), n.to_ascii_lowercase(), n.replace('\\', "/")] {
                tried += 1;
                let got = a.read_file(&variant).ok();
                if got != Some(vec![i as u8 + 1; 20 + i]) {
                    return fail("build_lookup", format!("files {:?} (home slot {} of 16), read_file({:?})", names, slot, variant), format!("{:?}", got.map(|g| g.len())), format!("{} bytes of {}", 20 + i, i + 1));
                }
            }
        }
        if a.read_file("never-added.bin").is_ok() { return fail("build_lookup", format!("{:?}", names), "read_file(never-added.bin) is Ok".into(), "not found".into()); }
        drop(a);
        // independent lookup: the hash table decrypted with the published key and probed the published way (home slot,
        // +1 with wrap-around over ALL slots, stop at a never-used entry) must find every added name
        if let Ok(raw) = std::fs::read(&path) {
            if raw.len() >= 32 && &raw[0..4] == b"MPQ\x1a" && u16::from_le_bytes([raw[12], raw[13]]) == 0 {
                let rd32 = |o: usize| u32::from_le_bytes([raw[o], raw[o + 1], raw[o + 2], raw[o + 3]]);
                let (hpos, hn) = (rd32(16) as usize, rd32(24) as usize);
                if hn.is_power_of_two() && hpos + hn * 16 <= raw.len() {
                    let words: Vec<u32> = (0..hn * 4).map(|i| rd32(hpos + i * 4)).collect();
                    let ht = decrypt(&words, hash(b"(hash table)", 0x300));
                    for n in names.iter() {
                        let nb = n.as_bytes();
                        let (ha, hb, mut idx) = (hash(nb, 0x100), hash(nb, 0x200), (hash(nb, 0) as usize) & (hn - 1));
                        let mut found = false;
                        for _ in 0..hn {
                            let e = &ht[idx * 4..idx * 4 + 4];
                            if e[3] == 0xFFFF_FFFF { break; }
                            if e[0] == ha && e[1] == hb && e[3] < 0xFFFF_FFFE { found = true; break; }
                            idx = (idx + 1) & (hn - 1);
                        }
                        tried += 1;
                        if !found { return fail("build_lookup", format!("files {:?} (home slot {} of {}): published probing for {:?} over the table the builder wrote", names, slot, hn, n), "not found (entry is not on the probe path home, home+1, .. with wrap-around)".into(), "found".into()); }
                    }
                }
            }
        }
    }
    // a second spelling of a stored name (same hashes) whose first copy was displaced from its home slot by a colliding name:
    // the build must refuse it, or both spellings must read back what was added under them
    {
        let home = wow_mpq::crypto::hash_string("Data\\Foo.txt", 0) & 15;
        let filler = colliding_names(home, 1).remove(0);
        let dir = tempfile::tempdir().unwrap();
        let path = dir.path().join("d.mpq");
        let r = ArchiveBuilder::new().listfile_option(ListfileOption::None)
            .add_file_data(vec![1u8; 9], &filler).add_file_data(vec![2u8; 10], "Data\\Foo.txt").add_file_data(vec![3u8; 11], "data/foo.TXT").build(&path);
        tried += 1;
        if r.is_ok() {
            let desc = format!("files [{:?}, \"Data\\\\Foo.txt\", \"data/foo.TXT\"] (the first two share home slot {} of 16)", filler, home);
            match Archive::open(&path) {
                Err(e) => return fail("build_lookup", desc, format!("open failed: {}", e), "Ok".into()),
                Ok(mut a) => {
                    let g1 = a.read_file("Data\\Foo.txt").ok(); let g2 = a.read_file("data/foo.TXT").ok();
                    if g1 != Some(vec![2u8; 10]) || g2 != Some(vec![3u8; 11]) {
                        return fail("build_lookup", desc, format!("build Ok; read back {:?} / {:?} bytes", g1.map(|g| g.len()), g2.map(|g| g.len())), "a duplicate-name error, or each spelling reads back its own content".into());
                    }
                }
            }
        }
    }
    // the generated (listfile) names every added file, also when one name is a substring of an earlier one
    {
        let dir = tempfile::tempdir().unwrap();
        let path = dir.path().join("g.mpq");
        let names = ["Textures\\stone.blp.bak", "Textures\\stone.blp", "Docs\\readme.txt", "readme.txt", "a", "aa"];
        let mut b = ArchiveBuilder::new().listfile_option(ListfileOption::Generate);
        for (i, n) in names.iter().enumerate() { b = b.add_file_data(vec![i as u8; 3 + i], n); }
        tried += 1;
        if b.build(&path).is_ok() {
            if let Ok(mut a) = Archive::open(&path) {
                match a.read_file("(listfile)") {
                    Ok(text) => {
                        let text = String::from_utf8_lossy(&text).to_string();
                        let lines: Vec<&str> = text.split("\r\n").filter(|l| !l.is_empty()).collect();
                        for n in names.iter() {
                            if lines.iter().filter(|l| *l == n).count() != 1 { return fail("build_lookup", format!("files {:?} with a generated listfile", names), format!("(listfile) lines {:?}", lines), format!("exactly one line {:?}", n)); }
                        }
                    }
                    Err(e) => return fail("build_lookup", format!("files {:?} with a generated listfile", names), format!("read_file((listfile)) Err({})", e), "Ok".into()),
                }
            }
        }
    }
    // a non-ASCII name is stored, listed and found under exactly the bytes it was added with; a multi-sector compressed file whose
    // last partial sector does not compress reads back bit-identically
    {
        let dir = tempfile::tempdir().unwrap();
        let path = dir.path().join("u.mpq");
        let name = "Donn\u{e9}es\\r\u{e9}sum\u{e9}.txt";
        let mut big = vec![b'A'; 2 * 4096];
        let mut r2 = Rng(0x7A11); big.extend((0..1000).map(|_| r2.next() as u8));
        let r = ArchiveBuilder::new().block_size(3).listfile_option(ListfileOption::Generate).add_file_data(vec![8u8; 21], name)
            .add_file_data_with_options(big.clone(), "big\\tail.bin", 2, false, 0).build(&path);
        tried += 1;
        if r.is_ok() {
            if let Ok(mut a) = Archive::open(&path) {
                let g = a.read_file(name).ok();
                if g != Some(vec![8u8; 21]) { return fail("build_lookup", format!("file added as {:?}", name), format!("read_file under the same name -> {:?}", g.map(|g| g.len())), "the 21 added bytes".into()); }
                if let Ok(text) = a.read_file("(listfile)") { if !String::from_utf8_lossy(&text).split("\r\n").any(|l| l == name) { return fail("build_lookup", format!("file added as {:?} with a generated listfile", name), format!("listfile {:?}", String::from_utf8_lossy(&text)), "a line with exactly that name".into()); } }
                let g2 = a.read_file("big\\tail.bin").ok();
                if g2.as_ref() != Some(&big) { return fail("build_lookup", "9192-byte file (two sectors of 'A' + 1000 random bytes), zlib, 4 KiB sectors".into(), format!("read back {:?} bytes, equal: false", g2.map(|g| g.len())), "bit-identical content".into()); }
            }
        }
    }
    // a file stored under a non-neutral locale is found by the plain lookup
    {
        let dir = tempfile::tempdir().unwrap();
        let path = dir.path().join("l.mpq");
        let r = ArchiveBuilder::new().listfile_option(ListfileOption::None).add_file_data(vec![5u8; 12], "neutral.txt")
            .add_file_data_with_options(vec![7u8; 13], "locale\\deDE.txt", 0, false, 0x407).build(&path);
        tried += 1;
        if let Ok(()) = r {
            if let Ok(mut a) = Archive::open(&path) {
                let g = a.read_file("locale\\deDE.txt").ok();
                if g != Some(vec![7u8; 13]) { return fail("build_lookup", "file added with locale 0x407 next to a neutral file".into(), format!("read_file -> {:?}", g.map(|g| g.len())), "the 13 added bytes".into()); }
                drop(a);
                // published entry layout: name hashes at +0/+4, locale (u16) at +8, platform (u16) at +10, block index at +12
                if let Ok(raw) = std::fs::read(&path) {
                    let rd32 = |o: usize| u32::from_le_bytes([raw[o], raw[o + 1], raw[o + 2], raw[o + 3]]);
                    if raw.len() >= 32 && u16::from_le_bytes([raw[12], raw[13]]) == 0 {
                        let (hpos, hn) = (rd32(16) as usize, rd32(24) as usize);
                        if hn.is_power_of_two() && hpos + hn * 16 <= raw.len() {
                            let words: Vec<u32> = (0..hn * 4).map(|i| rd32(hpos + i * 4)).collect();
                            let ht = decrypt(&words, hash(b"(hash table)", 0x300));
                            let nb = b"locale\\deDE.txt";
                            let (ha, hb) = (hash(nb, 0x100), hash(nb, 0x200));
                            if let Some(e) = ht.chunks(4).find(|e| e[0] == ha && e[1] == hb) {
                                if e[2] & 0xFFFF != 0x407 || e[2] >> 16 != 0 { return fail("build_lookup", "hash entry of a file added with locale 0x407, platform 0 (table decrypted with the published key)".into(), format!("dword at +8 is {:#010x}", e[2]), "0x00000407 (locale in the low half at +8, platform at +10)".into()); }
                            }
                        }
                    }
                }
            }
        }
    }
    // every version, generated attributes, and a caller-supplied "(attributes)" entry among the files (re-packing the listing of
    // an existing archive): the generated special file replaces it and every other name still resolves to its own content
    {
        use wow_mpq::{AttributesOption, FormatVersion};
        let user: Vec<(&str, Vec<u8>)> = vec![("readme.txt", b"hello world".to_vec()), ("data\\one.bin", vec![1u8; 300]), ("data\\two.bin", vec![2u8; 7000]), ("data\\three.bin", (0..5000u32).map(|i| (i % 251) as u8).collect())];
        for version in [FormatVersion::V1, FormatVersion::V2, FormatVersion::V3, FormatVersion::V4] {
            for stale_at in [None, Some(0usize), Some(1), Some(3)] {
                let dir = tempfile::tempdir().unwrap();
                let path = dir.path().join("g.mpq");
                let mut b = ArchiveBuilder::new().version(version).listfile_option(ListfileOption::Generate).attributes_option(AttributesOption::GenerateCrc32);
                for (i, (name, data)) in user.iter().enumerate() {
                    if stale_at == Some(i) { b = b.add_file_data(vec![0xEE; 24], "(attributes)"); }
                    b = b.add_file_data(data.clone(), name);
                }
                let desc = format!("{:?} archive, generated CRC32 attributes, 4 user files, caller-supplied (attributes) entry before file {:?}", version, stale_at);
                if b.build(&path).is_err() { continue; }   // a reported error is allowed
                tried += 1;
                let mut a = match Archive::open(&path) { Ok(a) => a, Err(e) => return fail("build_lookup", desc, format!("open Err({})", e), "Ok".into()) };
                for (name, data) in &user {
                    match a.read_file(name) {
                        Ok(got) if got == *data => {}
                        Ok(got) => return fail("build_lookup", desc, format!("read_file({}) returns {} other bytes", name, got.len()), format!("the {} added bytes", data.len())),
                        Err(e) => return fail("build_lookup", desc, format!("read_file({}) Err({})", name, e), "the added bytes".into()),
                    }
                }
            }
        }
    }
    // F1 (repaired): a multi-sector file stored without compression reads back bit-identically
    let f1 = f1_stored_multisector();
    if f1.contains("\"failing_input\":\"") { return f1.replace("f1_stored_multisector", "build_lookup"); }
    none("build_lookup", tried + 1)
}

fn md5_of(d: &[u8]) -> [u8; 16] { use md5::{Digest, Md5}; let mut h = Md5::new(); h.update(d); h.finalize().into() }

fn ptch(kind: &[u8; 4], size_before: u32, size_after: u32, md5_before: [u8; 16], md5_after: [u8; 16], payload: &[u8], patch_data_size: u32) -> Vec<u8> {
    let mut v = Vec::new();
    v.extend_from_slice(&0x48435450u32.to_le_bytes());
    v.extend_from_slice(&patch_data_size.to_le_bytes());
    v.extend_from_slice(&size_before.to_le_bytes());
    v.extend_from_slice(&size_after.to_le_bytes());
    v.extend_from_slice(&0x5f35444du32.to_le_bytes());
    v.extend_from_slice(&40u32.to_le_bytes());
    v.extend_from_slice(&md5_before);
    v.extend_from_slice(&md5_after);
    v.extend_from_slice(&0x4d524658u32.to_le_bytes());
    v.extend_from_slice(&((payload.len() as u32) + 12).to_le_bytes());
    v.extend_from_slice(kind);
    v.extend_from_slice(payload);
    v
}

/// apply_patch: Ok(r) only if md5(base) and md5(r) equal the declared digests (COPY patches, all four digest cases)
fn patch_verify(seed: u64) -> String {
    use wow_mpq::patch::{apply_patch, PatchFile};
    let mut rng = Rng(seed ^ 0x9A7C);
    let mut tried = 0;
    for _ in 0..60 {
        let nb = (rng.next() % 40) as usize; let na = (rng.next() % 40) as usize;
        let base = rng.bytes(nb); let newd = rng.bytes(na);
        for (bad_before, bad_after) in [(false, false), (true, false), (false, true), (true, true)] {
            tried += 1;
            let mut mb = md5_of(&base); let mut ma = md5_of(&newd);
            if bad_before { mb[3] ^= 0x40; }
            if bad_after { ma[11] ^= 0x01; }
            let bytes = ptch(b"COPY", nb as u32, na as u32, mb, ma, &newd, na as u32);
            let pf = match PatchFile::parse(&bytes) { Ok(p) => p, Err(e) => return fail("patch_verify", format!("PatchFile::parse of a well-formed COPY patch ({} -> {} bytes)", nb, na), format!("Err({})", e), "Ok".into()) };
            let b2 = base.clone();
            let r = catch(move || apply_patch(&pf, &b2));
            match r {
                Err(p) => return fail("patch_verify", format!("COPY patch {}->{} bytes", nb, na), format!("panic: {}", p), "Ok or Err".into()),
                Ok(Ok(out)) => {
                    if bad_before || bad_after { return fail("patch_verify", format!("COPY patch {}->{} bytes with {} digest altered", nb, na, if bad_before { "before" } else { "after" }), "Ok(bytes) - unverified bytes returned".into(), "Err".into()); }
                    if out != newd { return fail("patch_verify", format!("COPY patch {}->{} bytes", nb, na), "different bytes".into(), "patch payload".into()); }
                }
                Ok(Err(e)) => { if !bad_before && !bad_after { return fail("patch_verify", format!("valid COPY patch {}->{} bytes", nb, na), format!("Err({})", e), "Ok(payload)".into()); } }
            }
        }
    }
    // a digest field blanked to sixteen zero bytes is a wrong digest like any other
    for which in 0..2 {
        tried += 1;
        let base = vec![3u8; 10]; let newd = vec![9u8; 12];
        let (mut mb, mut ma) = (md5_of(&base), md5_of(&newd));
        if which == 0 { mb = [0u8; 16]; } else { ma = [0u8; 16]; }
        let bytes = ptch(b"COPY", 10, 12, mb, ma, &newd, 12);
        if let Ok(pf) = PatchFile::parse(&bytes) {
            let b2 = base.clone();
            if let Ok(Ok(_)) = catch(move || apply_patch(&pf, &b2)) {
                return fail("patch_verify", format!("COPY patch 10->12 bytes whose md5_{} field is sixteen zero bytes", if which == 0 { "before" } else { "after" }), "Ok(bytes) - unverified bytes returned".into(), "Err".into());
            }
        }
    }
    none("patch_verify", tried)
}

/// BSD0 patches with arbitrary bsdiff header fields: apply_patch returns Ok or Err, never panics
fn bsd0_total(seed: u64) -> String {
    use wow_mpq::patch::{apply_patch, PatchFile};
    let mut rng = Rng(seed ^ 0xB5D0);
    let mut tried = 0;
    let specials: [u64; 8] = [0, 12, 24, u64::MAX, u64::MAX - 31, u64::MAX - 32, 1 << 63, (1 << 63) - 32];
    for round in 0..400 {
        let nb = (rng.next() % 8) as usize; let base = rng.bytes(nb);
        let ctrl = if round < 64 { specials[round % 8] } else { rng.next() % 40 };
        let data = if round < 64 { specials[(round / 8) % 8] } else { rng.next() % 16 };
        let newsize = rng.next() % 12;
        let mut raw = Vec::new();
        raw.extend_from_slice(&0x3034464649445342u64.to_le_bytes());
        raw.extend_from_slice(&ctrl.to_le_bytes());
        raw.extend_from_slice(&data.to_le_bytes());
        raw.extend_from_slice(&newsize.to_le_bytes());
        let ne = (rng.next() % 40) as usize; let extra = rng.bytes(ne);
        raw.extend_from_slice(&extra);
        // RLE: 4-byte size header, then literal runs of <= 128 bytes
        let mut payload = (raw.len() as u32).to_le_bytes().to_vec();
        for ch in raw.chunks(128) { payload.push(0x80 | (ch.len() as u8 - 1)); payload.extend_from_slice(ch); }
        let bytes = ptch(b"BSD0", base.len() as u32, newsize as u32, md5_of(&base), [0u8; 16], &payload, raw.len() as u32);
        let pf = match PatchFile::parse(&bytes) { Ok(p) => p, Err(_) => continue };
        tried += 1;
        let b2 = base.clone();
        if let Err(p) = catch(move || apply_patch(&pf, &b2).map(|v| v.len())) {
            return fail("bsd0_total", format!("BSD0 patch: ctrl_block_size={:#x} data_block_size={:#x} new_file_size={} ({} payload bytes after the 32-byte bsdiff header), base {} bytes", ctrl, data, newsize, extra.len(), base.len()), format!("panic: {}", p), "Ok or Err".into());
        }
    }
    none("bsd0_total", tried)
}

fn dbc_header(seed: u64) -> String {
    use wow_cdbc::{DbcHeader, FieldType, Schema, SchemaField};
    let mut rng = Rng(seed ^ 0xDBC1);
    let mut tried = 0;
    let vals: [u32; 9] = [0, 1, 2, 0xFFFF, 0x10000, 0x10001, 0x7FFFFFFF, 0x80000000, 0xFFFFFFFF];
    for &rc in &vals { for &rs in &vals { for &sb in &[0u32, 1, 0xFFFFFFFF] {
        tried += 1;
        let h = DbcHeader { magic: *b"WDBC", record_count: rc, field_count: 1, record_size: rs, string_block_size: sb };
        let want = 20u64 + rc as u64 * rs as u64 + sb as u64;
        match catch(move || h.total_size()) {
            Err(p) => return fail("dbc_header", format!("DbcHeader{{record_count:{:#x}, record_size:{:#x}, string_block_size:{:#x}}}.total_size()", rc, rs, sb), format!("panic: {}", p), format!("{}", want)),
            Ok(v) if v != want => return fail("dbc_header", format!("DbcHeader{{record_count:{:#x}, record_size:{:#x}, string_block_size:{:#x}}}.total_size()", rc, rs, sb), format!("{}", v), format!("{}", want)),
            _ => {}
        }
    }}}
    let types = [FieldType::Int32, FieldType::UInt32, FieldType::Float32, FieldType::String, FieldType::Bool, FieldType::UInt8, FieldType::Int8, FieldType::UInt16, FieldType::Int16];
    for _ in 0..300 {
        tried += 1;
        let n = (rng.next() % 6) as usize;
        let mut sc = Schema::new("t");
        let mut want = 0usize; let mut desc = Vec::new();
        for i in 0..n {
            let t = types[(rng.next() % 9) as usize];
            let w = match t { FieldType::UInt8 | FieldType::Int8 => 1, FieldType::UInt16 | FieldType::Int16 => 2, _ => 4 };
            if rng.next() % 4 == 0 { let a = (rng.next() % 4) as usize; sc.add_field(SchemaField::new_array(format!("f{}", i), t, a)); want += w * a; desc.push(format!("{:?}[{}]", t, a)); }
            else { sc.add_field(SchemaField::new(format!("f{}", i), t)); want += w; desc.push(format!("{:?}", t)); }
        }
        let got = sc.record_size();
        if got != want { return fail("dbc_header", format!("Schema{:?}.record_size()", desc), format!("{}", got), format!("{} (packed sum of field widths)", want)); }
    }
    none("dbc_header", tried)
}

fn dbc_strings(seed: u64) -> String {
    use wow_cdbc::{StringBlock, CachedStringBlock, StringRef};
    let mut rng = Rng(seed ^ 0x57B1);
    let mut tried = 0;
    for _ in 0..400 {
        let n = (rng.next() % 12) as usize;
        let data: Vec<u8> = (0..n).map(|_| if rng.next() % 3 == 0 { 0 } else { b'a' + (rng.next() % 26) as u8 }).collect();
        let sb = match StringBlock::parse(&mut std::io::Cursor::new(data.clone()), 0, n as u32) { Ok(s) => s, Err(_) => continue };
        let cached = CachedStringBlock::from_string_block(&sb);
        for off in 0..(n as u32 + 2) {
            tried += 1;
            let want: Option<Vec<u8>> = if (off as usize) < n { let o = off as usize; let e = data[o..].iter().position(|&b| b == 0).map(|p| o + p).unwrap_or(n); Some(data[o..e].to_vec()) } else { None };
            let got = sb.get_string(StringRef::new(off)).ok().map(|s| s.as_bytes().to_vec());
            if got != want { return fail("dbc_strings", format!("block {:02x?}, get_string(offset {})", data, off), format!("{:?}", got), format!("{:?}", want)); }
            let got2 = cached.get_string(StringRef::new(off)).ok().map(|s| s.as_bytes().to_vec());
            if got2 != want { return fail("dbc_strings", format!("block {:02x?}, cached get_string(offset {})", data, off), format!("{:?}", got2), format!("{:?} (uncached)", want)); }
            let st = sb.is_string_start(off);
            let wst = (off as usize) < n && (off == 0 || data[off as usize - 1] == 0);
            if st != wst { return fail("dbc_strings", format!("block {:02x?}, is_string_start({})", data, off), format!("{}", st), format!("{}", wst)); }
        }
    }
    none("dbc_strings", tried)
}

fn dbc_keys(seed: u64) -> String {
    use wow_cdbc::{DbcParser, FieldType, Schema, SchemaField, Value};
    let mut rng = Rng(seed ^ 0x4E75);
    let mut tried = 0;
    for _ in 0..200 {
        let n = (rng.next() % 6) as usize;
        let mut keys: Vec<u32> = Vec::new();
        while keys.len() < n { let k = (rng.next() % 50) as u32; if !keys.contains(&k) { keys.push(k); } }
        let mut bytes = b"WDBC".to_vec();
        bytes.extend_from_slice(&(n as u32).to_le_bytes()); bytes.extend_from_slice(&2u32.to_le_bytes()); bytes.extend_from_slice(&8u32.to_le_bytes()); bytes.extend_from_slice(&1u32.to_le_bytes());
        for (i, k) in keys.iter().enumerate() { bytes.extend_from_slice(&k.to_le_bytes()); bytes.extend_from_slice(&(1000 + i as u32).to_le_bytes()); }
        bytes.push(0);
        let mut sc = Schema::new("t"); sc.add_field(SchemaField::new("id", FieldType::UInt32)); sc.add_field(SchemaField::new("v", FieldType::UInt32)); sc.set_key_field("id");
        let parser = match DbcParser::parse_bytes(&bytes).and_then(|p| p.with_schema(sc)) { Ok(p) => p, Err(e) => return fail("dbc_keys", format!("keys {:?}", keys), format!("parse Err({})", e), "Ok".into()) };
        let mut rs = match parser.parse_records() { Ok(r) => r, Err(e) => return fail("dbc_keys", format!("keys {:?}", keys), format!("parse_records Err({})", e), "Ok".into()) };
        for phase in 0..2 {
            if phase == 1 { if rs.create_sorted_key_map().is_err() { break; } }
            for (i, k) in keys.iter().enumerate() {
                tried += 1;
                let h = rs.get_record_by_key(*k).and_then(|r| match r.get_value(1) { Some(Value::UInt32(v)) => Some(*v), _ => None });
                if h != Some(1000 + i as u32) { return fail("dbc_keys", format!("records with keys {:?} (file order), {} get_record_by_key({})", keys, if phase == 1 { "after create_sorted_key_map," } else { "" }, k), format!("{:?}", h), format!("record {} (value {})", i, 1000 + i)); }
                if phase == 1 {
                    let b = rs.get_record_by_key_binary_search(*k).and_then(|r| match r.get_value(1) { Some(Value::UInt32(v)) => Some(*v), _ => None });
                    if b != Some(1000 + i as u32) { return fail("dbc_keys", format!("records with keys {:?}, binary search for {}", keys, k), format!("{:?}", b), format!("record {}", i)); }
                }
            }
        }
    }
    none("dbc_keys", tried)
}

/// parse -> write -> parse with repeated / empty strings: every record resolves to the same text; identical strings stored once
fn dbc_writer(seed: u64) -> String {
    use wow_cdbc::{DbcParser, DbcWriter, FieldType, Schema, SchemaField, Value};
    let mut rng = Rng(seed ^ 0x3717);
    let mut tried = 0;
    let pool = ["", "wolf", "Z\u{fc}rich", "boar", "w", "wolfhound", "\u{65e5}\u{672c}\u{8a9e}"];
    for _ in 0..200 {
        let n = 1 + (rng.next() % 5) as usize;
        let picks: Vec<usize> = (0..n).map(|_| (rng.next() % pool.len() as u64) as usize).collect();
        // source file: string block with every pool string once
        // every other source block starts with real text at offset 0 (no leading NUL, as in files written by other tools)
        let leading_nul = rng.next() % 2 == 0;
        let mut block = if leading_nul { vec![0u8] } else { Vec::new() }; let mut offs = vec![0u32; pool.len()];
        for (i, s) in pool.iter().enumerate() { if i == 0 { continue; } offs[i] = block.len() as u32; block.extend_from_slice(s.as_bytes()); block.push(0); }
        if !leading_nul { offs[0] = pool[1].len() as u32; }   // the terminator of the first string serves as the empty string
        let mut bytes = b"WDBC".to_vec();
        bytes.extend_from_slice(&(n as u32).to_le_bytes()); bytes.extend_from_slice(&2u32.to_le_bytes()); bytes.extend_from_slice(&8u32.to_le_bytes()); bytes.extend_from_slice(&(block.len() as u32).to_le_bytes());
        for (i, p) in picks.iter().enumerate() { bytes.extend_from_slice(&(i as u32 + 1).to_le_bytes()); bytes.extend_from_slice(&offs[*p].to_le_bytes()); }
        bytes.extend_from_slice(&block);
        let mk = || { let mut sc = Schema::new("t"); sc.add_field(SchemaField::new("id", FieldType::UInt32)); sc.add_field(SchemaField::new("name", FieldType::String)); sc };
        let rs = match DbcParser::parse_bytes(&bytes).and_then(|p| p.with_schema(mk())).and_then(|p| p.parse_records()) { Ok(r) => r, Err(_) => continue };
        let mut out = std::io::Cursor::new(Vec::new());
        let wr = { let mut w = DbcWriter::new(&mut out).with_schema(mk()); w.write_records(&rs) };
        if let Err(e) = wr { return fail("dbc_writer", format!("strings {:?}", picks.iter().map(|p| pool[*p]).collect::<Vec<_>>()), format!("write Err({})", e), "Ok".into()); }
        let written = out.into_inner();
        tried += 1;
        let rs2 = match DbcParser::parse_bytes(&written).and_then(|p| p.with_schema(mk())).and_then(|p| p.parse_records()) { Ok(r) => r, Err(e) => return fail("dbc_writer", format!("strings {:?}", picks.iter().map(|p| pool[*p]).collect::<Vec<_>>()), format!("re-parse Err({})", e), "Ok".into()) };
        for (i, p) in picks.iter().enumerate() {
            let got = rs2.get_record(i).and_then(|r| match r.get_value(1) { Some(Value::StringRef(sr)) => rs2.get_string(*sr).ok().map(|s| s.to_string()), _ => None });
            if got.as_deref() != Some(pool[*p]) { return fail("dbc_writer", format!("table with strings {:?}: record {} after write -> parse", picks.iter().map(|p| pool[*p]).collect::<Vec<_>>(), i), format!("{:?}", got), format!("{:?}", pool[*p])); }
        }
        // stored once: block size = 1 + sum over distinct non-empty strings (len + 1)
        let mut distinct: Vec<&str> = picks.iter().map(|p| pool[*p]).filter(|s| !s.is_empty()).collect(); distinct.sort(); distinct.dedup();
        let want_block = 1 + distinct.iter().map(|s| s.len() + 1).sum::<usize>();
        let got_block = u32::from_le_bytes([written[16], written[17], written[18], written[19]]) as usize;
        if got_block != want_block { return fail("dbc_writer", format!("strings {:?}", picks.iter().map(|p| pool[*p]).collect::<Vec<_>>()), format!("string block {} bytes", got_block), format!("{} bytes (each distinct string once)", want_block)); }
    }
    none("dbc_writer", tried)
}

fn blp_file(version: u8, content: u32, alpha: u32, w: u32, h: u32, mips: u32, offsets: [u32; 16], sizes: [u32; 16], tail: &[u8]) -> Vec<u8> {
    let mut v = Vec::new();
    v.extend_from_slice(match version { 0 => b"BLP0", 1 => b"BLP1", _ => b"BLP2" });
    v.extend_from_slice(&content.to_le_bytes());
    if version >= 2 { v.push(if content == 1 { 1 } else { 1 }); v.push(alpha as u8); v.push(0); v.push(mips as u8); }
    else { v.extend_from_slice(&alpha.to_le_bytes()); }
    v.extend_from_slice(&w.to_le_bytes());
    v.extend_from_slice(&h.to_le_bytes());
    if version < 2 { v.extend_from_slice(&5u32.to_le_bytes()); v.extend_from_slice(&mips.to_le_bytes()); }
    if version >= 1 { for o in offsets { v.extend_from_slice(&o.to_le_bytes()); } for s in sizes { v.extend_from_slice(&s.to_le_bytes()); } }
    v.extend_from_slice(tail);
    v
}

/// crafted BLP headers (huge dimensions, locator entries at/over the end, overflowing offset+size): parse_blp never panics
fn blp_total(seed: u64) -> String {
    let mut rng = Rng(seed ^ 0xB1B0);
    let dims: [u32; 10] = [0, 1, 2, 3, 255, 0x8000, 0xFFFF, 0x10000, 0x7FFFFFFF, 0xFFFFFFFF];
    let mut tried = 0;
    let mut cases: Vec<(String, Vec<u8>)> = Vec::new();
    for ver in [1u8, 2, 0] { for &w in &dims { for &h in &dims { for alpha in [0u32, 1, 4, 8] { for mips in [0u32, 1] {
        let mut offs = [0u32; 16]; let mut sizes = [0u32; 16];
        let hdr_len = if ver == 2 { 20 + 128 } else if ver == 1 { 28 + 128 } else { 28 };
        offs[0] = (hdr_len + 1024) as u32; sizes[0] = 64;
        let mut tail = vec![0u8; 1024 + 64];
        for b in tail.iter_mut() { *b = (rng.next() >> 9) as u8; }
        cases.push((format!("BLP{} direct {}x{} alpha {} mips {}", ver, w, h, alpha, mips), blp_file(ver, 1, alpha, w, h, mips, offs, sizes, &tail)));
    }}}}}
    for (off, size) in [(0xFFFFFFF0u32, 0x20u32), (0xFFFFFFFF, 1), (200, 0xFFFFFFFF), (1180, 1), (1244, 0), (1243, 1), (1243, 2)] {
        let mut offs = [0u32; 16]; let mut sizes = [0u32; 16]; offs[0] = off; sizes[0] = size;
        cases.push((format!("BLP1 direct 2x2, locator offset {:#x} size {:#x}", off, size), blp_file(1, 1, 0, 2, 2, 0, offs, sizes, &vec![7u8; 1024 + 64])));
        cases.push((format!("BLP2 direct 2x2, locator offset {:#x} size {:#x}", off, size), blp_file(2, 1, 0, 2, 2, 0, offs, sizes, &vec![7u8; 1024 + 64])));
    }
    // BLP2 with the other compression kinds (raw3 = 3, DXTC = 2 with each alpha type): same hostile locators
    for comp in [2u8, 3] { for atype in [0u8, 1, 7, 8] { for (off, size) in [(0xFFFFFFF0u32, 0x20u32), (0xFFFFFFFF, 1), (200, 0xFFFFFFFF), (200, 0xFFFFFF80), (1180, 1), (1236, 0), (1235, 1), (1235, 2)] {
        let mut offs = [0u32; 16]; let mut sizes = [0u32; 16]; offs[0] = off; sizes[0] = size;
        let mut v = blp_file(2, 1, 0, 4, 4, 0, offs, sizes, &vec![7u8; 1024 + 64]);
        v[8] = comp; v[9] = 8; v[10] = atype;
        cases.push((format!("BLP2 compression {} alpha type {} 4x4, locator offset {:#x} size {:#x}", comp, atype, off, size), v));
    }}}
    for (name, bytes) in cases {
        tried += 1;
        let b2 = bytes.clone();
        if let Err(p) = catch(move || wow_blp::parser::parse_blp(&b2).is_ok()) {
            return fail("blp_total", format!("{} ({} bytes)", name, bytes.len()), format!("panic: {}", p), "Ok or Err".into());
        }
    }
    none("blp_total", tried)
}

/// mip chain arithmetic for every dimension up to 4096 and selected large ones (native, includes mipmaps_count through f32::log2)
fn blp_mips() -> String {
    use wow_blp::types::*;
    let mut tried = 0;
    let mut dims: Vec<u32> = (1..=4096).collect(); dims.extend([5000, 8191, 8192, 65535, 65536]);
    for &w in &dims { for &h in [1u32, 2, 3, 6, 7, 8, 255, 256, 257, 4096].iter() {
        tried += 1;
        let hd = BlpHeader { version: BlpVersion::Blp1, content: BlpContentTag::Direct, flags: BlpFlags::Old { alpha_bits: 0, extra: 0, has_mipmaps: 1 }, width: w, height: h, mipmap_locator: MipmapLocator::Internal { offsets: [0; 16], sizes: [0; 16] } };
        let n = hd.mipmaps_count();
        let m = w.max(h);
        if n as u32 != 31 - m.leading_zeros() { return fail("blp_mips", format!("mipmaps_count for {}x{}", w, h), format!("{}", n), format!("{}", 31 - m.leading_zeros())); }
        for i in 0..=n {
            let want = if i == 0 { (w, h) } else { ((w >> i).max(1), (h >> i).max(1)) };
            let got = hd.mipmap_size(i);
            if got != want { return fail("blp_mips", format!("mipmap_size({}) for {}x{}", i, w, h), format!("{:?}", got), format!("{:?} (each level halves, rounding down, min 1)", want)); }
        }
        if hd.mipmap_size(n) != (1, 1) { return fail("blp_mips", format!("last level of {}x{}", w, h), format!("{:?}", hd.mipmap_size(n)), "(1, 1)".into()); }
    }}
    none("blp_mips", tried)
}

/// image -> BLP (raw1 / raw3, every alpha depth, odd sizes, mipmaps) -> encode -> parse: identical structure;
/// decoded alpha equals the source alpha quantised to the declared depth
fn blp_codec(seed: u64, alpha_focus: bool) -> String {
    use wow_blp::convert::{image_to_blp, blp_to_image, BlpTarget, BlpOldFormat, Blp2Format, AlphaBits, FilterType};
    use wow_blp::encode::encode_blp;
    use wow_blp::parser::parse_blp;
    let mut rng = Rng(seed ^ 0xA1FA);
    let mut tried = 0;
    let sizes: [(u32, u32); 12] = [(1, 1), (3, 3), (5, 3), (1, 7), (2, 2), (8, 2), (4, 4), (6, 6), (7, 9), (16, 4), (9, 1), (13, 2)];
    for &(w, h) in &sizes { for mips in [false, true] { for ab in [AlphaBits::NoAlpha, AlphaBits::Bit1, AlphaBits::Bit4, AlphaBits::Bit8] {
        let targets = vec![
            ("BLP1 raw1", BlpTarget::Blp1(BlpOldFormat::Raw1 { alpha_bits: ab })),
            ("BLP2 raw1", BlpTarget::Blp2(Blp2Format::Raw1 { alpha_bits: ab })),
            ("BLP2 raw3", BlpTarget::Blp2(Blp2Format::Raw3)),
        ];
        for (tname, target) in targets {
            if !alpha_focus && tname == "BLP2 raw3" && ab != AlphaBits::Bit8 { continue; }
            let mut img = image::RgbaImage::new(w, h);
            for p in img.pixels_mut() { let c = (rng.next() % 4) as u8 * 60; *p = image::Rgba([c, c / 2, 255 - c, [0u8, 255, 17, 128, 200, 1][(rng.next() % 6) as usize]]); }
            let src = img.clone();
            let desc = format!("{} {}x{} alpha {} mipmaps {}", tname, w, h, ab, mips);
            tried += 1;
            let r = catch(move || -> Result<(), String> {
                let blp = image_to_blp(image::DynamicImage::ImageRgba8(img), mips, target, FilterType::Nearest).map_err(|e| format!("image_to_blp: {}", e))?;
                if mips {
                    // the chain halves each dimension (minimum 1) down to 1x1: floor(log2(max(w, h))) + 1 levels
                    let levels = (32 - w.max(h).leading_zeros()) as usize;
                    if blp.image_count() != levels.min(16) { return Err(format!("mipmap chain has {} levels, expected {} (each dimension halves, minimum 1, down to 1x1)", blp.image_count(), levels.min(16))); }
                }
                let bytes = encode_blp(&blp).map_err(|e| format!("encode_blp: {}", e))?;
                let back = parse_blp(&bytes).map_err(|e| format!("parse of the encoded bytes failed: {}", e))?;
                if back != blp { return Err(format!("parsed structure differs from the encoded one (header {:?} vs {:?})", back.header, blp.header)); }
                let dec = blp_to_image(&back, 0).map_err(|e| format!("blp_to_image: {}", e))?.to_rgba8();
                if dec.dimensions() != (w, h) { return Err(format!("decoded size {:?}", dec.dimensions())); }
                for (x, y, p) in dec.enumerate_pixels() {
                    let a = src.get_pixel(x, y)[3];
                    let want = match (tname, ab) {
                        ("BLP2 raw3", _) => a,
                        (_, AlphaBits::NoAlpha) => 255,
                        (_, AlphaBits::Bit1) => if a > 0 { 255 } else { 0 },
                        (_, AlphaBits::Bit4) => { let q = ((a as f64 / 255.0) * 15.0).round() as u32; ((q as f64 / 15.0) * 255.0).round() as u8 },
                        (_, AlphaBits::Bit8) => a,
                    };
                    let got = p[3];
                    let ok = if matches!(ab, AlphaBits::Bit4) && tname != "BLP2 raw3" { (got as i32 - want as i32).abs() <= 1 } else { got == want };
                    if !ok { return Err(format!("pixel ({},{}) alpha {} decoded as {}, expected {}", x, y, a, got, want)); }
                }
                Ok(())
            });
            match r {
                Err(p) => return fail(if alpha_focus { "blp_alpha" } else { "blp_header" }, desc, format!("panic: {}", p), "round trip".into()),
                Ok(Err(e)) => return fail(if alpha_focus { "blp_alpha" } else { "blp_header" }, desc, e, "encode -> parse identical, alpha quantised to the declared depth".into()),
                Ok(Ok(())) => {}
            }
        }
    }}}
    // compressed targets: the structure (header flags that select the content kind on parse, level payloads) survives
    // encode -> parse for every DXT kind with and without alpha (sizes that are multiples of the 4x4 block)
    if !alpha_focus {
        for &(w, h) in &[(4u32, 4u32), (8, 8), (16, 4)] { for mips in [false, true] { for has_alpha in [true, false] {
            let targets = vec![
                ("BLP2 dxt1", BlpTarget::Blp2(Blp2Format::Dxt1 { has_alpha, compress_algorithm: Default::default() })),
                ("BLP2 dxt3", BlpTarget::Blp2(Blp2Format::Dxt3 { has_alpha, compress_algorithm: Default::default() })),
                ("BLP2 dxt5", BlpTarget::Blp2(Blp2Format::Dxt5 { has_alpha, compress_algorithm: Default::default() })),
            ];
            for (tname, target) in targets {
                let mut img = image::RgbaImage::new(w, h);
                for p in img.pixels_mut() { let c = (rng.next() % 4) as u8 * 60; *p = image::Rgba([c, c / 2, 255 - c, 255]); }
                let desc = format!("{} {}x{} has_alpha {} mipmaps {}", tname, w, h, has_alpha, mips);
                tried += 1;
                let r = catch(move || -> Result<(), String> {
                    let blp = image_to_blp(image::DynamicImage::ImageRgba8(img), mips, target, FilterType::Nearest).map_err(|e| format!("image_to_blp: {}", e))?;
                    let bytes = encode_blp(&blp).map_err(|e| format!("encode_blp: {}", e))?;
                    let back = parse_blp(&bytes).map_err(|e| format!("parse of the encoded bytes failed: {}", e))?;
                    if std::mem::discriminant(&back.content) != std::mem::discriminant(&blp.content) { return Err("encoded content kind is parsed back as a different kind".to_string()); }
                    if back != blp { return Err(format!("parsed structure differs from the encoded one (header {:?} vs {:?})", back.header, blp.header)); }
                    Ok(())
                });
                match r {
                    Err(p) => return fail("blp_header", desc, format!("panic: {}", p), "round trip".into()),
                    Ok(Err(e)) => return fail("blp_header", desc, e, "encode -> parse identical structure".into()),
                    Ok(Ok(())) => {}
                }
            }
        }}}
    }
    none(if alpha_focus { "blp_alpha" } else { "blp_header" }, tried)
}

/// WDT: write -> parse returns equal content and a second write is byte-identical (MAIN flags/area ids on
/// off-diagonal tiles, MAID file ids on off-diagonal tiles)
fn wdt_roundtrip(seed: u64) -> String {
    use wow_wdt::{WdtFile, WdtReader, WdtWriter};
    use wow_wdt::version::WowVersion;
    use wow_wdt::chunks::maid::{MaidChunk, MaidSection};
    let mut rng = Rng(seed ^ 0x3D7);
    let mut tried = 0;
    for (vname, ver, with_maid) in [("Classic", WowVersion::Classic, false), ("WotLK", WowVersion::WotLK, false), ("BfA", WowVersion::BfA, true)] {
        for round in 0..6 {
            tried += 1;
            let mut w = WdtFile::new(ver);
            let mut cells = vec![(63usize, 0usize), (0, 63), (10, 20), (62, 61)];
            for _ in 0..round { cells.push(((rng.next() % 64) as usize, (rng.next() % 64) as usize)); }
            for (i, &(x, y)) in cells.iter().enumerate() {
                if let Some(e) = w.main.get_mut(x, y) { e.flags = 1 | ((i as u32) << 8); e.area_id = 0x8000_0000 | (x as u32 * 64 + y as u32); }
            }
            if with_maid {
                let mut m = MaidChunk::new();
                for (i, &(x, y)) in cells.iter().enumerate() { let _ = m.set(MaidSection::RootAdt, x, y, 1000 + i as u32); let _ = m.set(MaidSection::Tex0Adt, x, y, 5000 + (x * 64 + y) as u32); }
                w.maid = Some(m);
            }
            let desc = format!("{} WDT with tiles {:?}{}", vname, cells, if with_maid { " + MAID ids" } else { "" });
            let mut out = Vec::new();
            if let Err(e) = WdtWriter::new(&mut out).write(&w) { return fail("wdt_roundtrip", desc, format!("write Err({})", e), "Ok".into()); }
            let back = match WdtReader::new(std::io::Cursor::new(out.clone()), ver).read() { Ok(b) => b, Err(e) => return fail("wdt_roundtrip", desc, format!("read Err({})", e), "Ok".into()) };
            if back.main != w.main { return fail("wdt_roundtrip", desc, "MAIN entries differ after write -> parse".into(), "equal".into()); }
            if back.maid != w.maid {
                let mut d = String::new();
                if let (Some(a), Some(b)) = (&back.maid, &w.maid) { 'o: for y in 0..64 { for x in 0..64 { if a.get(MaidSection::RootAdt, x, y) != b.get(MaidSection::RootAdt, x, y) { d = format!("root id at ({},{}) is {:?}, written {:?}", x, y, a.get(MaidSection::RootAdt, x, y), b.get(MaidSection::RootAdt, x, y)); break 'o; } } } }
                return fail("wdt_roundtrip", desc, format!("MAID differs after write -> parse: {}", d), "equal".into());
            }
            let mut out2 = Vec::new();
            if WdtWriter::new(&mut out2).write(&back).is_err() || out2 != out { return fail("wdt_roundtrip", desc, "second write is not byte-identical".into(), "identical bytes".into()); }
        }
    }
    none("wdt_roundtrip", tried)
}

/// WDL: sparse tiles with distinct data survive write -> parse, second write byte-identical
fn wdl_roundtrip(seed: u64) -> String {
    use wow_wdl::parser::WdlParser;
    use wow_wdl::types::{HeightMapTile, HolesData};
    use wow_wdl::{WdlFile, WdlVersion};
    let mut rng = Rng(seed ^ 0x3D1);
    let mut tried = 0;
    for (vname, ver) in [("Vanilla", WdlVersion::Vanilla), ("Wotlk", WdlVersion::Wotlk), ("Legion", WdlVersion::Legion)] {
        for round in 0..5 {
            tried += 1;
            let mut f = WdlFile::with_version(ver);
            let mut tiles = vec![(5u32, 2u32), (2, 5), (63, 0), (0, 63)];
            for _ in 0..round { tiles.push(((rng.next() % 64) as u32, (rng.next() % 64) as u32)); }
            tiles.sort(); tiles.dedup();
            for &(x, y) in &tiles {
                let mut t = HeightMapTile::new();
                for (i, v) in t.outer_values.iter_mut().enumerate() { *v = (x as i16) * 100 + (y as i16) + i as i16; }
                for (i, v) in t.inner_values.iter_mut().enumerate() { *v = -((x as i16) * 50 + (y as i16) * 3 + i as i16); }
                f.heightmap_tiles.insert((x, y), t);
                // holes only for some tiles (a tile without holes may precede one with holes), masks with distinct low/high bytes
                if ver.has_maho_chunk() && (round == 0 || (x + y + round as u32) % 2 == 0) { let mut h = HolesData::new(); h.hole_masks[(x % 16) as usize] = (y as u16) | 0x8000; h.hole_masks[((x + 5) % 16) as usize] = 0x12A5 ^ (x as u16); f.holes_data.insert((x, y), h); }
            }
            let desc = format!("{} WDL with tiles {:?}", vname, tiles);
            let p = WdlParser::with_version(ver);
            let mut out = std::io::Cursor::new(Vec::new());
            if let Err(e) = p.write(&mut out, &f) { return fail("wdl_roundtrip", desc, format!("write Err({})", e), "Ok".into()); }
            let bytes = out.into_inner();
            let back = match p.parse(&mut std::io::Cursor::new(bytes.clone())) { Ok(b) => b, Err(e) => return fail("wdl_roundtrip", desc, format!("parse Err({})", e), "Ok".into()) };
            for &(x, y) in &tiles {
                let a = back.heightmap_tiles.get(&(x, y)); let b = f.heightmap_tiles.get(&(x, y));
                if a.map(|t| (&t.outer_values, &t.inner_values)) != b.map(|t| (&t.outer_values, &t.inner_values)) { return fail("wdl_roundtrip", desc, format!("heights of tile ({},{}) differ after write -> parse", x, y), "equal".into()); }
                if back.holes_data.get(&(x, y)).map(|h| h.hole_masks) != f.holes_data.get(&(x, y)).map(|h| h.hole_masks) { return fail("wdl_roundtrip", desc, format!("holes of tile ({},{}) differ after write -> parse", x, y), "equal".into()); }
            }
            if back.heightmap_tiles.len() != tiles.len() { return fail("wdl_roundtrip", desc, format!("{} tiles after parse", back.heightmap_tiles.len()), format!("{}", tiles.len())); }
            let mut out2 = std::io::Cursor::new(Vec::new());
            if p.write(&mut out2, &back).is_err() || out2.into_inner() != bytes { return fail("wdl_roundtrip", desc, "second write is not byte-identical".into(), "identical bytes".into()); }
        }
    }
    none("wdl_roundtrip", tried)
}

/// C API: reads/seeks with oversize requests, seeks beyond either end, forged/stale/null handles; the cursor
/// stays inside the data, bytes and sizes equal the Rust API
fn ffi_cursor(seed: u64) -> String {
    use crate::storm_mod::storm::*;
    use std::ffi::{c_void, CStr, CString};
    use std::ptr;
    let mut rng = Rng(seed ^ 0xFF1);
    let dir = tempfile::tempdir().unwrap();
    let path = dir.path().join("ffi.mpq");
    let payload: Vec<u8> = (0..100u32).map(|i| (i * 7 + 3) as u8).collect();
    if let Err(e) = wow_mpq::ArchiveBuilder::new().add_file_data(payload.clone(), "data\\blob.bin").build(&path) { return format!("{{\"oracle\":\"ffi_cursor\",\"error\":{:?}}}", e.to_string()); }
    let mut tried = 0;
    unsafe {
        let c_path = CString::new(path.to_str().unwrap()).unwrap();
        let mut archive: HANDLE = ptr::null_mut();
        if !SFileOpenArchive(c_path.as_ptr(), 0, 0, &mut archive) { return fail("ffi_cursor", "SFileOpenArchive".into(), "false".into(), "true".into()); }
        let mut file: HANDLE = ptr::null_mut();
        if !SFileOpenFileEx(archive, c"data\\blob.bin".as_ptr(), 0, &mut file) { return fail("ffi_cursor", "SFileOpenFileEx".into(), "false".into(), "true".into()); }
        let info_pos = |f: HANDLE| -> u64 { let mut pos = u64::MAX; let mut need = 0u32; SFileGetFileInfo(f, 10, &mut pos as *mut u64 as *mut c_void, 8, &mut need); pos };
        let len = payload.len() as u64;
        let mut model: u64 = 0;
        let mut trace = Vec::new();
        for _ in 0..300 {
            tried += 1;
            if rng.next() % 2 == 0 {
                let req = [0u32, 1, 7, 40, 100, 101, 4096][(rng.next() % 7) as usize];
                let mut buf = vec![0xAAu8; req as usize + 8];
                let mut got = 12345u32;
                let ok = SFileReadFile(file, buf.as_mut_ptr() as *mut c_void, req, &mut got, ptr::null_mut());
                trace.push(format!("read({})", req));
                let want = (req as u64).min(len - model);
                if !ok || got as u64 != want { return fail("ffi_cursor", format!("{:?}", trace), format!("ok={} read={}", ok, got), format!("read={}", want)); }
                if buf[..want as usize] != payload[model as usize..(model + want) as usize] { return fail("ffi_cursor", format!("{:?}", trace), "bytes differ from the Rust API".into(), "same bytes".into()); }
                if buf[req as usize..].iter().any(|&b| b != 0xAA) { return fail("ffi_cursor", format!("{:?}", trace), "bytes written beyond the caller's buffer".into(), "untouched".into()); }
                model += want;
            } else {
                let method = (rng.next() % 3) as u32;
                let off = [0i32, 1, -1, 8, -8, 100, -100, 150, -150, i32::MAX, i32::MIN][(rng.next() % 11) as usize];
                let r = SFileSetFilePointer(file, off, ptr::null_mut(), method);
                trace.push(format!("seek({}, method {})", off, method));
                let basep = match method { 0 => 0i64, 1 => model as i64, _ => len as i64 };
                let t = basep + off as i64;
                // the library clamps to the file size (and maps a negative target to the end of the data)
                let want = if t < 0 || t as u64 > len { len } else { t as u64 };
                if r as u64 != want { return fail("ffi_cursor", format!("{:?}", trace), format!("new position {}", r), format!("{}", want)); }
                model = want;
            }
            let p = info_pos(file);
            if p != model || p > len { return fail("ffi_cursor", format!("{:?}", trace), format!("cursor {} (file size {})", p, len), format!("cursor {}", model)); }
        }
        // 64-bit forms: a negative offset passed the Win32 way (low = -n, *high = -1), a zero high part, the size's high dword
        for (low, hi, method) in [(-4i32, -1i32, 2u32), (-10, -1, 2), (25, 0, 0), (-1, -1, 2)] {
            tried += 1;
            let mut h = hi;
            let r = SFileSetFilePointer(file, low, &mut h, method);
            let want = (if method == 2 { len as i64 } else { 0 }) + low as i64;
            if r as i64 != want || h != 0 { return fail("ffi_cursor", format!("SFileSetFilePointer(low {}, *high {}, method {}) on a {}-byte file", low, hi, method, len), format!("returns {} with *high = {}", r, h), format!("{} with *high = 0", want)); }
            if info_pos(file) != want as u64 { return fail("ffi_cursor", format!("SFileSetFilePointer(low {}, *high {}, method {})", low, hi, method), format!("cursor {}", info_pos(file)), format!("{}", want)); }
        }
        {
            tried += 1;
            let mut high = 0xDEADBEEFu32;
            let low = SFileGetFileSize(file, &mut high);
            if low as u64 != len || high != 0 { return fail("ffi_cursor", format!("SFileGetFileSize on a {}-byte file with *high preset to 0xDEADBEEF", len), format!("low {} high {:#x}", low, high), format!("low {} high 0", len)); }
            let mut got = 777u32;
            SFileSetFilePointer(file, 0, ptr::null_mut(), 2);
            let mut b1 = [0u8; 4];
            let ok = SFileReadFile(file, b1.as_mut_ptr() as *mut c_void, 4, &mut got, ptr::null_mut());
            if !ok || got != 0 { return fail("ffi_cursor", "SFileReadFile of 4 bytes at end of file with *read preset to 777".into(), format!("ok={} *read={}", ok, got), "*read = 0".into()); }
        }
        // forged / null / stale handles
        let forged = ((file as usize) | (1usize << 32)) as HANDLE;
        if SFileGetFileSize(forged, ptr::null_mut()) != 0xFFFFFFFF { return fail("ffi_cursor", format!("SFileGetFileSize(forged handle {:#x}) while {:#x} is live", forged as usize, file as usize), "accepted".into(), "INVALID_FILE_SIZE".into()); }
        if SFileGetFileSize(ptr::null_mut(), ptr::null_mut()) != 0xFFFFFFFF { return fail("ffi_cursor", "SFileGetFileSize(NULL)".into(), "accepted".into(), "error".into()); }
        let forged_a = ((archive as usize) | (1usize << 32)) as HANDLE;
        if SFileHasFile(forged_a, c"data\\blob.bin".as_ptr()) { return fail("ffi_cursor", format!("SFileHasFile(forged archive handle {:#x})", forged_a as usize), "true".into(), "false".into()); }
        // SFileGetArchiveName with every buffer size around the boundary: success iff name + NUL fit, nothing written at or beyond the size given
        {
            let name = path.to_str().unwrap().as_bytes().to_vec();
            for size in 1..=name.len() + 3 {
                tried += 1;
                let mut buf = vec![0xA5u8; name.len() + 8];
                let ok = SFileGetArchiveName(archive, buf.as_mut_ptr() as *mut std::ffi::c_char, size as u32);
                let fits = name.len() + 1 <= size;
                let beyond = buf[size.min(buf.len())..].iter().any(|&b| b != 0xA5);
                if ok != fits || beyond || (ok && (buf[..name.len()] != name[..] || buf[name.len()] != 0)) {
                    return fail("ffi_cursor", format!("SFileGetArchiveName with buffer_size {} for a {}-byte name", size, name.len()), format!("returns {}, bytes at or beyond buffer_size modified: {}", ok, beyond), format!("returns {} and writes only inside the buffer", fits));
                }
            }
        }
        SFileCloseFile(file);
        if SFileGetFileSize(file, ptr::null_mut()) != 0xFFFFFFFF { return fail("ffi_cursor", "SFileGetFileSize(closed handle)".into(), "accepted".into(), "error".into()); }
        SFileCloseArchive(archive);
        // searches: a selective mask over interleaved names equals the Rust listing filtered, no entry twice; a long name keeps the
        // plain-name pointer inside the record; closing the archive invalidates its search handle
        {
            let p2 = dir.path().join("find.mpq");
            let long_name = format!("{}\\{}", "d".repeat(262), "tail.txt");
            let mut b = wow_mpq::ArchiveBuilder::new();
            let mut names: Vec<String> = Vec::new();
            for i in 0..6 { names.push(format!("note{}.txt", i)); names.push(format!("blob{}.bin", i)); if i % 2 == 1 { names.push(format!("sub\\deep{}.bin", i)); } }
            names.push(long_name.clone());
            for n in &names { b = b.add_file_data(vec![1, 2, 3], n); }
            if let Err(e) = b.build(&p2) { return format!("{{\"oracle\":\"ffi_cursor\",\"error\":{:?}}}", e.to_string()); }
            let listed: Vec<String> = match wow_mpq::Archive::open(&p2).and_then(|mut a| a.list()) { Ok(l) => l.into_iter().map(|e| e.name).collect(), Err(e) => return format!("{{\"oracle\":\"ffi_cursor\",\"error\":{:?}}}", e.to_string()) };
            let want: Vec<String> = listed.iter().filter(|n| n.to_ascii_lowercase().ends_with(".txt")).cloned().collect();
            let c2 = CString::new(p2.to_str().unwrap()).unwrap();
            let mut a2: HANDLE = ptr::null_mut();
            if !SFileOpenArchive(c2.as_ptr(), 0, 0, &mut a2) { return fail("ffi_cursor", "SFileOpenArchive(find.mpq)".into(), "false".into(), "true".into()); }
            let mut fd: SFILE_FIND_DATA = std::mem::zeroed();
            let hf = SFileFindFirstFile(a2, c"*.txt".as_ptr(), &mut fd, ptr::null());
            let mut got: Vec<String> = Vec::new();
            let mut more = !hf.is_null() && hf as isize != -1;
            let mut guard = 0;
            while more && guard < 100 {
                guard += 1;
                tried += 1;
                let nm = CStr::from_ptr(fd.c_file_name.as_ptr()).to_string_lossy().into_owned();
                let off = (fd.sz_plain_name as usize).wrapping_sub(fd.c_file_name.as_ptr() as usize);
                if off > 259 { return fail("ffi_cursor", format!("SFileFind*File over an archive holding a {}-byte name with its last backslash at byte {}", long_name.len(), 262), format!("szPlainName points {} bytes behind the start of cFileName[260]", off), "a pointer into cFileName".into()); }
                got.push(nm);
                more = SFileFindNextFile(hf, &mut fd);
            }
            let trunc = |n: &String| -> String { n.chars().take(259).collect() };
            let want_t: Vec<String> = want.iter().map(trunc).collect();
            let mut g = got.clone(); g.sort(); let mut w = want_t.clone(); w.sort();
            if g != w { return fail("ffi_cursor", format!("SFileFindFirstFile/NextFile with mask *.txt over {:?}", names.iter().map(trunc).collect::<Vec<_>>()), format!("{:?}", got), format!("each of {:?} once (Archive::list filtered)", want_t)); }
            // SFileVerifyArchive over all files must return (it used to take the archive table lock and then call SFileVerifyFile, which takes it again)
            {
                tried += 1;
                let (tx, rx) = std::sync::mpsc::channel();
                let ah = a2 as usize;
                std::thread::spawn(move || { let r = SFileVerifyArchive(ah as HANDLE, 0x20); let _ = tx.send(r); });
                if rx.recv_timeout(std::time::Duration::from_secs(20)).is_err() {
                    return fail("ffi_cursor", "SFileVerifyArchive(archive, SFILE_VERIFY_ALL_FILES = 0x20) on a 16-file archive".into(), "no answer within 20 s (self-deadlock on the archive table lock)".into(), "returns".into());
                }
            }
            // a fresh search handle, then close the archive: the handle must be dead
            let hf2 = SFileFindFirstFile(a2, c"*".as_ptr(), &mut fd, ptr::null());
            SFileCloseArchive(a2);
            tried += 1;
            if !hf2.is_null() && hf2 as isize != -1 && SFileFindNextFile(hf2, &mut fd) {
                return fail("ffi_cursor", "SFileFindFirstFile(archive, \"*\"), SFileCloseArchive(archive), SFileFindNextFile(search handle)".into(), "the search handle of the closed archive still answers true".into(), "false (closing an archive invalidates its search handles)".into());
            }
            if !hf.is_null() && hf as isize != -1 { SFileFindClose(hf); }
        }
    }
    none("ffi_cursor", tried)
}

/// C08: a patch chain under a random history of add / remove / re-prioritise equals a plain model: the highest priority
/// holder of a name wins (earliest added wins ties), listing is the union, a name in no archive is not found.  The archives
/// have "holes" (a name held by the top and the bottom archive but not by the ones between).
fn chain_model(seed: u64) -> String {
    use wow_mpq::{ArchiveBuilder, PatchChain};
    let mut rng = Rng(seed ^ 0xC8A1);
    let dir = tempfile::tempdir().unwrap();
    let universe = ["common.txt", "Data\\hole.dbc", "Data\\only_low.dbc", "ui\\frame.xml", "ui\\top.lua", "never.added"];
    // which archive holds which name
    let holds: [&[usize]; 5] = [&[0, 1, 2, 3], &[0, 3], &[0, 1, 4], &[0, 3, 4], &[0, 2]];
    let mut paths = Vec::new();
    for (a, names) in holds.iter().enumerate() {
        let p = dir.path().join(format!("arch{}.mpq", a));
        let mut b = ArchiveBuilder::new();
        for &n in names.iter() { b = b.add_file_data(format!("{}@{}", universe[n], a).into_bytes(), universe[n]); }
        if let Err(e) = b.build(&p) { return format!("{{\"oracle\":\"chain_model\",\"error\":{:?}}}", e.to_string()); }
        paths.push(p);
    }
    let mut tried = 0;
    for _round in 0..6 {
        let mut chain = PatchChain::new();
        let mut model: Vec<(usize, i32)> = Vec::new(); // chain order: highest priority first, earlier added first among equals
        let mut trace: Vec<String> = Vec::new();
        for _step in 0..14 {
            let a = (rng.next() % 5) as usize;
            let present = model.iter().position(|e| e.0 == a);
            let op = rng.next() % 4;
            if present.is_none() {
                let prio = [0i32, 100, 100, -5, 200, 100][(rng.next() % 6) as usize];
                trace.push(format!("add(arch{}, {})", a, prio));
                if let Err(e) = chain.add_archive(&paths[a], prio) { return fail("chain_model", format!("{:?}", trace), format!("add_archive Err({})", e), "Ok".into()); }
                let pos = model.iter().position(|e| e.1 < prio).unwrap_or(model.len());
                model.insert(pos, (a, prio));
            } else if op == 0 {
                // re-prioritise to a value no other archive holds (the tie order after set_priority is not fixed by the property)
                let mut prio = [7i32, 150, -20, 300, 55][(rng.next() % 5) as usize];
                while model.iter().any(|e| e.1 == prio) { prio += 1; }
                trace.push(format!("set_priority(arch{}, {})", a, prio));
                if let Err(e) = chain.set_priority(&paths[a], prio) { return fail("chain_model", format!("{:?}", trace), format!("set_priority Err({})", e), "Ok".into()); }
                model.remove(present.unwrap());
                let pos = model.iter().position(|e| e.1 < prio).unwrap_or(model.len());
                model.insert(pos, (a, prio));
            } else {
                trace.push(format!("remove(arch{})", a));
                match chain.remove_archive(&paths[a]) { Ok(true) => {}, r => return fail("chain_model", format!("{:?}", trace), format!("remove_archive {:?}", r.map_err(|e| e.to_string())), "Ok(true)".into()) }
                model.remove(present.unwrap());
            }
            for (n, name) in universe.iter().enumerate() {
                tried += 1;
                let winner = model.iter().find(|e| holds[e.0].contains(&n)).map(|e| e.0);
                let got = chain.read_file(name);
                match (winner, got) {
                    (Some(w), Ok(bytes)) => { let want = format!("{}@{}", name, w).into_bytes(); if bytes != want { return fail("chain_model", format!("{:?} then read {:?}", trace, name), format!("content {:?}", String::from_utf8_lossy(&bytes)), format!("content {:?} (arch{} is the highest-priority holder)", String::from_utf8_lossy(&want), w)); } }
                    (Some(w), Err(e)) => return fail("chain_model", format!("{:?} then read {:?}", trace, name), format!("Err({})", e), format!("the copy held by arch{}", w)),
                    (None, Ok(_)) => return fail("chain_model", format!("{:?} then read {:?}", trace, name), "Ok(bytes)".into(), "not found (no archive of the chain holds it)".into()),
                    (None, Err(_)) => {}
                }
                if chain.contains_file(name) != winner.is_some() { return fail("chain_model", format!("{:?} then contains_file({:?})", trace, name), format!("{}", !winner.is_some()), format!("{}", winner.is_some())); }
            }
            let mut listed: Vec<String> = match chain.list() { Ok(l) => l.into_iter().map(|e| e.name).filter(|n| !n.starts_with('(')).collect(), Err(e) => return fail("chain_model", format!("{:?} then list()", trace), format!("Err({})", e), "Ok".into()) };
            listed.sort(); listed.dedup();
            let mut want: Vec<String> = universe.iter().enumerate().filter(|(n, _)| model.iter().any(|e| holds[e.0].contains(n))).map(|(_, s)| s.to_string()).collect();
            want.sort();
            if listed != want { return fail("chain_model", format!("{:?} then list()", trace), format!("{:?}", listed), format!("{:?} (union of the archives in the chain)", want)); }
        }
    }
    none("chain_model", tried)
}

/// C08, patch entries: a chain whose winning entry is a binary patch returns base + patches carrying the digest the winning patch
/// declares, or an error - never bytes the winning patch does not vouch for (corrupt patch container, wrong base revision).
/// Patch archives: a stored single-unit file `TPatchInfo || PTCH` whose block entry gets MPQ_FILE_PATCH_FILE (Cataclysm layout).
fn chain_patch(seed: u64) -> String {
    use wow_mpq::{Archive, ArchiveBuilder, PatchChain};
    let mut rng = Rng(seed ^ 0x9C7A);
    let dir = tempfile::tempdir().unwrap();
    let name = "Data\\table.dbc";
    let full = |file: &str, data: &[u8]| -> std::path::PathBuf {
        let p = dir.path().join(file);
        ArchiveBuilder::new().add_file_data(data.to_vec(), name).build(&p).unwrap();
        p
    };
    let patch_archive = |file: &str, ptch_bytes: &[u8]| -> Result<std::path::PathBuf, String> {
        let p = dir.path().join(file);
        let mut body = Vec::new();
        body.extend_from_slice(&28u32.to_le_bytes());
        body.extend_from_slice(&0u32.to_le_bytes());
        body.extend_from_slice(&(ptch_bytes.len() as u32).to_le_bytes());
        body.extend_from_slice(&[0u8; 16]);
        body.extend_from_slice(ptch_bytes);
        ArchiveBuilder::new().add_file_data_with_options(body, name, 0, false, 0).add_file_data(file.as_bytes().to_vec(), "marker.txt").build(&p).map_err(|e| e.to_string())?;
        let bi = { let a = Archive::open(&p).map_err(|e| e.to_string())?; a.find_file(name).map_err(|e| e.to_string())?.ok_or("entry missing")?.block_index };
        let mut raw = std::fs::read(&p).unwrap();
        let rd = |o: usize, raw: &[u8]| u32::from_le_bytes([raw[o], raw[o + 1], raw[o + 2], raw[o + 3]]);
        let (bt, n) = (rd(0x14, &raw) as usize, rd(0x1c, &raw) as usize);
        let words: Vec<u32> = (0..n * 4).map(|i| rd(bt + i * 4, &raw)).collect();
        let key = hash(b"(block table)", 0x300);
        let mut w = decrypt(&words, key);
        w[bi * 4 + 3] |= 0x0010_0000;
        let w = encrypt(&w, key);
        for (i, x) in w.iter().enumerate() { raw[bt + i * 4..bt + i * 4 + 4].copy_from_slice(&x.to_le_bytes()); }
        std::fs::write(&p, raw).unwrap();
        Ok(p)
    };
    let mut tried = 0;
    for round in 0..4 {
        let old = rng.bytes(40 + round * 7);
        let new1 = rng.bytes(60 + round * 3);
        let other = rng.bytes(old.len()); // a different revision of the same length
        let good = ptch(b"COPY", old.len() as u32, new1.len() as u32, md5_of(&old), md5_of(&new1), &new1, new1.len() as u32);
        let base = full(&format!("base{}.mpq", round), &old);
        let wrong_base = full(&format!("wrong{}.mpq", round), &other);
        let pa = match patch_archive(&format!("patch{}.mpq", round), &good) { Ok(p) => p, Err(e) => return format!("{{\"oracle\":\"chain_patch\",\"error\":{:?}}}", e) };
        // 1. well-formed chain: the patched content
        tried += 1;
        let mut c = PatchChain::new();
        if let Err(e) = c.add_archive(&base, 0).and_then(|_| c.add_archive(&pa, 10)) { return fail("chain_patch", "add base + COPY patch archive".into(), format!("Err({})", e), "Ok".into()); }
        match c.read_file(name) {
            Ok(b) if b == new1 => {}
            Ok(b) => return fail("chain_patch", format!("base ({} bytes, priority 0) + COPY patch archive (priority 10), read {:?}", old.len(), name), format!("{} bytes with digest {:02x?}", b.len(), md5_of(&b)), format!("the {} patched bytes, digest {:02x?}", new1.len(), md5_of(&new1))),
            Err(e) => return fail("chain_patch", format!("base + well-formed COPY patch archive, read {:?}", name), format!("Err({})", e), "the patched bytes".into()),
        }
        // 2. wrong base revision: error, never bytes
        tried += 1;
        let mut c = PatchChain::new();
        let _ = c.add_archive(&wrong_base, 0).and_then(|_| c.add_archive(&pa, 10));
        if let Ok(b) = c.read_file(name) { if md5_of(&b) != md5_of(&new1) { return fail("chain_patch", "base of another revision (same length) + COPY patch archive".into(), format!("Ok({} bytes) not matching the digest the winning patch declares", b.len()), "Err".into()); } }
        // 3. the winning patch container is damaged (signature, or truncated): error, never the bytes below it
        for (what, bad) in [("PTCH signature overwritten", { let mut x = good.clone(); x[0] = b'X'; x }), ("PTCH stream truncated inside the MD5 block", good[..40].to_vec())] {
            tried += 1;
            let pb = match patch_archive(&format!("bad{}_{}.mpq", round, what.len()), &bad) { Ok(p) => p, Err(e) => return format!("{{\"oracle\":\"chain_patch\",\"error\":{:?}}}", e) };
            let mut c = PatchChain::new();
            let _ = c.add_archive(&base, 0).and_then(|_| c.add_archive(&pb, 10));
            if let Ok(b) = c.read_file(name) {
                return fail("chain_patch", format!("base ({} bytes, priority 0) + patch archive (priority 10) whose patch entry for {:?} has its {}", old.len(), name, what), format!("Ok({} bytes{}) - bytes the winning patch entry does not vouch for", b.len(), if b == old { " = the unpatched base" } else { "" }), "Err".into());
            }
        }
    }
    none("chain_patch", tried)
}

/// M2 fixed-size records: write(parse(bytes)) reproduces the bytes and the record size matches the version
fn m2_records(seed: u64) -> String {
    use wow_m2::chunks::animation::M2Animation;
    use wow_m2::chunks::bone::M2Bone;
    use wow_m2::chunks::m2_track::M2Track;
    use wow_m2::common::C3Vector;
    let mut rng = Rng(seed ^ 0x4D32);
    let mut tried = 0;
    for round in 0..600 {
        let version = [256u32, 257, 260, 263, 264, 272, 274][(rng.next() % 7) as usize];
        let mut buf = rng.bytes(112);
        // keep away from the documented normalisations: interpolation codes 0..=3, finite floats
        let hdr = if version >= 260 { 16 } else { 12 };
        let trk = if version < 264 { 28 } else { 20 };
        for t in 0..3 { buf[hdr + t * trk] = (rng.next() % 4) as u8; buf[hdr + t * trk + 1] = 0; }
        for f in 0..3 { buf[hdr + 3 * trk + f * 4 + 3] &= 0x3F; }
        if round % 3 == 0 { buf[4] |= 0x80; buf[5] |= 0x01; buf[6] |= 0x04; } // flag bits without a named constant
        if round % 5 == 0 && version < 264 { for b in &mut buf[hdr + 4..hdr + 8] { *b = 0; } buf[hdr + 8] = 0x40; } // ranges: count 0, offset != 0
        tried += 1;
        let b2 = buf.clone();
        let r = catch(move || -> Result<(), String> {
            let mut c = std::io::Cursor::new(&b2[..]);
            let bone = M2Bone::parse(&mut c, version).map_err(|e| format!("parse: {}", e))?;
            let n = c.position() as usize;
            if n != hdr + 3 * trk + 12 { return Err(format!("consumed {} bytes", n)); }
            let mut out = Vec::new();
            bone.write(&mut out, version).map_err(|e| format!("write: {}", e))?;
            if out != b2[..n] { let d = out.iter().zip(&b2[..n]).position(|(a, b)| a != b).unwrap_or(out.len().min(n)); return Err(format!("rewritten bytes differ at offset {} ({} vs {} bytes)", d, out.len(), n)); }
            Ok(())
        });
        match r { Err(p) => return fail("m2_records", format!("M2Bone version {} bytes {:02x?}", version, &buf[..hdr + 3 * trk + 12]), format!("panic: {}", p), "round trip".into()),
                  Ok(Err(e)) => return fail("m2_records", format!("M2Bone version {} bytes {:02x?}", version, &buf[..hdr + 3 * trk + 12]), e, "write(parse(bytes)) == bytes".into()), _ => {} }
        // sequences
        let mut sb = rng.bytes(68);
        if round % 2 == 0 { sb[if version <= 256 { 24 } else { 20 }] = 0xFF; sb[if version <= 256 { 25 } else { 21 }] = 0xFF; } // negative frequency
        if round % 7 == 0 { sb[4] = 0xFF; sb[5] = 0xFF; sb[6] = 0xFF; sb[7] = 0xFF; } // huge start timestamp
        let s2 = sb.clone();
        let r = catch(move || -> Result<(), String> {
            let mut c = std::io::Cursor::new(&s2[..]);
            let a = M2Animation::parse(&mut c, version).map_err(|e| format!("parse: {}", e))?;
            let n = c.position() as usize;
            let mut out = Vec::new();
            a.write(&mut out, version).map_err(|e| format!("write: {}", e))?;
            if out != s2[..n] { let d = out.iter().zip(&s2[..n]).position(|(a, b)| a != b).unwrap_or(out.len().min(n)); return Err(format!("rewritten bytes differ at offset {} ({} vs {} bytes)", d, out.len(), n)); }
            Ok(())
        });
        match r { Err(p) => return fail("m2_records", format!("M2Animation version {} bytes {:02x?}", version, sb), format!("panic: {}", p), "round trip".into()),
                  Ok(Err(e)) => return fail("m2_records", format!("M2Animation version {} bytes {:02x?}", version, sb), e, "write(parse(bytes)) == bytes".into()), _ => {} }
        // tracks
        let mut tb = rng.bytes(28); tb[0] = (rng.next() % 4) as u8; tb[1] = 0;
        if round % 4 == 0 { for b in &mut tb[4..8] { *b = 0; } }
        let t2 = tb.clone();
        let r = catch(move || -> Result<(), String> {
            let mut c = std::io::Cursor::new(&t2[..]);
            let t = M2Track::<C3Vector>::parse(&mut c, version).map_err(|e| format!("parse: {}", e))?;
            let n = c.position() as usize;
            let mut out = Vec::new();
            t.write(&mut out, version).map_err(|e| format!("write: {}", e))?;
            if out != t2[..n] { return Err(format!("rewritten bytes differ ({:02x?} vs {:02x?})", out, &t2[..n])); }
            Ok(())
        });
        match r { Err(p) => return fail("m2_records", format!("M2Track version {} bytes {:02x?}", version, tb), format!("panic: {}", p), "round trip".into()),
                  Ok(Err(e)) => return fail("m2_records", format!("M2Track version {} bytes {:02x?}", version, tb), e, "write(parse(bytes)) == bytes".into()), _ => {} }
    }
    none("m2_records", tried)
}

/// A minimal INDEPENDENT reader written from the published MPQ format (V1 header offsets, table keys
/// hash("(hash table)") / hash("(block table)"), reference hash/cipher, published flag values, FIX_KEY formula):
/// it must be able to extract what ArchiveBuilder writes (stored single-unit files, plain / encrypted / FIX_KEY).
fn mpq_interop(seed: u64) -> String {
    use wow_mpq::{ArchiveBuilder, ListfileOption};
    let mut rng = Rng(seed ^ 0x1A7E);
    let mut tried = 0;
    let rd32 = |b: &[u8], o: usize| u32::from_le_bytes([b[o], b[o + 1], b[o + 2], b[o + 3]]);
    for round in 0..12 {
        let dir = tempfile::tempdir().unwrap();
        let path = dir.path().join("i.mpq");
        let mut files: Vec<(String, Vec<u8>, bool, bool)> = (0..4).map(|i| {
            let n = 4 * (1 + (rng.next() % 40) as usize);
            (format!("file{}_{}.dat", round, i), rng.bytes(n), i % 2 == 1, i == 3)
        }).collect();
        // one compressible FIX_KEY file stored zlib-compressed (single unit): the key must use the UNCOMPRESSED size
        let text: Vec<u8> = (0..900).map(|i| b"lorem ipsum dolor sit amet "[i % 27]).collect();
        files.push((format!("text{}.txt", round), text, true, true));
        let mut b = ArchiveBuilder::new().listfile_option(ListfileOption::None);
        for (i, (name, data, enc, fix)) in files.iter().enumerate() {
            let method = if i == 4 { 2 } else { 0 };
            b = if *enc { b.add_file_data_with_encryption(data.clone(), name, method, *fix, 0) } else { b.add_file_data_with_options(data.clone(), name, method, false, 0) };
        }
        if let Err(e) = b.build(&path) { return fail("mpq_interop", format!("{} files", files.len()), format!("build Err({})", e), "Ok".into()); }
        let raw = std::fs::read(&path).unwrap();
        tried += 1;
        if &raw[0..4] != b"MPQ\x1a" { return fail("mpq_interop", "header".into(), format!("magic {:02x?}", &raw[0..4]), "MPQ\\x1A".into()); }
        let hsize = rd32(&raw, 4) as usize;
        let fmt = u16::from_le_bytes([raw[12], raw[13]]);
        let hpos = rd32(&raw, 16) as usize; let bpos = rd32(&raw, 20) as usize;
        let hn = rd32(&raw, 24) as usize; let bn = rd32(&raw, 28) as usize;
        if hsize != 32 || fmt != 0 { return fail("mpq_interop", "V1 header".into(), format!("header size {} format {}", hsize, fmt), "32 / 0".into()); }
        if !hn.is_power_of_two() || hpos + hn * 16 > raw.len() || bpos + bn * 16 > raw.len() { return fail("mpq_interop", "table positions".into(), format!("hash table {}@{} block table {}@{} in {} bytes", hn, hpos, bn, bpos, raw.len()), "inside the file".into()); }
        let words = |o: usize, n: usize| -> Vec<u32> { (0..n * 4).map(|i| rd32(&raw, o + i * 4)).collect() };
        let ht = decrypt(&words(hpos, hn), hash(b"(hash table)", 0x300));
        let bt = decrypt(&words(bpos, bn), hash(b"(block table)", 0x300));
        for (name, data, enc, fix) in &files {
            let nb = name.as_bytes();
            let (a, bb, mut idx) = (hash(nb, 0x100), hash(nb, 0x200), (hash(nb, 0) as usize) & (hn - 1));
            let mut found = None;
            for _ in 0..hn {
                let e = &ht[idx * 4..idx * 4 + 4];
                if e[3] == 0xFFFF_FFFF { break; }
                if e[0] == a && e[1] == bb && e[3] < 0xFFFF_FFFE { found = Some(e[3] as usize); break; }
                idx = (idx + 1) & (hn - 1);
            }
            let bi = match found { Some(i) if i < bn => i, _ => return fail("mpq_interop", format!("independent lookup of {} (hash table decrypted with the published key, published probing)", name), "not found".into(), "found".into()) };
            let e = &bt[bi * 4..bi * 4 + 4];
            let (pos, csize, fsize, flags) = (e[0] as usize, e[1] as usize, e[2] as usize, e[3]);
            if flags & 0x8000_0000 == 0 { return fail("mpq_interop", format!("block entry of {} (block table decrypted with the published key 0xEC83B3A3)", name), format!("flags {:#010x}", flags), "EXISTS (0x80000000) set".into()); }
            if (flags & 0x0001_0000 != 0) != *enc || (flags & 0x0002_0000 != 0) != (*enc && *fix) { return fail("mpq_interop", format!("flags of {}", name), format!("{:#010x}", flags), format!("ENCRYPTED={} FIX_KEY={}", enc, enc & fix)); }
            if fsize != data.len() || pos + csize > raw.len() { return fail("mpq_interop", format!("sizes of {}", name), format!("file_size {} csize {} pos {}", fsize, csize, pos), format!("file_size {}", data.len())); }
            let mut body = raw[pos..pos + csize].to_vec();
            if *enc {
                let base = hash(nb, 0x300);
                let key = if *fix { base.wrapping_add(pos as u32) ^ (fsize as u32) } else { base };
                let full = body.len() / 4 * 4;
                let w: Vec<u32> = body[..full].chunks(4).map(|c| u32::from_le_bytes([c[0], c[1], c[2], c[3]])).collect();
                let mut dec: Vec<u8> = decrypt(&w, key).iter().flat_map(|x| x.to_le_bytes()).collect();
                if full < body.len() {
                    // this library enciphers the 1-3 tail bytes with key + dword count (noted in DESIGN as a StormLib deviation)
                    let mut last = [0u8; 4]; last[..body.len() - full].copy_from_slice(&body[full..]);
                    let d = decrypt(&[u32::from_le_bytes(last)], key.wrapping_add((full / 4) as u32))[0].to_le_bytes();
                    dec.extend_from_slice(&d[..body.len() - full]);
                }
                body = dec;
            }
            if csize < fsize {
                if flags & 0x0000_0200 == 0 || body.is_empty() || body[0] != 0x02 { return fail("mpq_interop", format!("compressed file {}", name), format!("flags {:#010x}, method byte {:?}", flags, body.first()), "COMPRESS flag and zlib method byte 0x02 after decryption with the published key formula".into()); }
                use std::io::Read;
                let mut out = Vec::new();
                if flate2::read::ZlibDecoder::new(&body[1..]).read_to_end(&mut out).is_err() { return fail("mpq_interop", format!("independent extraction of {} (zlib, FIX_KEY, {} -> {} bytes)", name, csize, fsize), "payload does not inflate after decryption with (hash(name,0x300) + pos) ^ uncompressed size".into(), "valid zlib stream".into()); }
                body = out;
            }
            if &body != data { return fail("mpq_interop", format!("independent extraction of {} ({} bytes, encrypted={}, fix_key={}) with the published key formula (hash(name,0x300) + pos) ^ size", name, data.len(), enc, fix), "different bytes".into(), "the added bytes".into()); }
        }
    }
    // V3 / V4 extended header (published layout): 64-bit archive size +0x2C, BET position +0x34, HET position +0x3C.  An independent
    // reader finds the extended tables only if each position word points at the table with that signature.
    for (vi, ver) in [wow_mpq::FormatVersion::V3, wow_mpq::FormatVersion::V4].into_iter().enumerate() {
        let dir = tempfile::tempdir().unwrap();
        let path = dir.path().join("x.mpq");
        let b = ArchiveBuilder::new().version(ver).listfile_option(ListfileOption::None)
            .add_file_data(rng.bytes(100 + 4 * vi), "one.dat").add_file_data(rng.bytes(300), "dir\\two.dat");
        if let Err(e) = b.build(&path) { return fail("mpq_interop", format!("{:?} archive, 2 files", ver), format!("build Err({})", e), "Ok".into()); }
        let check = |what: &str| -> Option<String> {
            let raw = std::fs::read(&path).unwrap();
            let rd64 = |o: usize| u64::from(rd32(&raw, o)) | (u64::from(rd32(&raw, o + 4)) << 32);
            let hsize = rd32(&raw, 4) as usize;
            let want = if vi == 0 { 68 } else { 208 };
            if hsize != want || u16::from_le_bytes([raw[12], raw[13]]) as usize != 2 + vi { return Some(fail("mpq_interop", format!("{:?} header ({})", ver, what), format!("header size {} format {}", hsize, raw[12]), format!("{} / {}", want, 2 + vi))); }
            let (bet, het) = (rd64(0x34) as usize, rd64(0x3C) as usize);
            let sig = |o: usize| -> String { if o != 0 && o + 4 <= raw.len() { format!("{:02x?}", &raw[o..o + 4]) } else { format!("offset {} of {}", o, raw.len()) } };
            if bet == 0 && het == 0 { return None; }
            if sig(bet) != format!("{:02x?}", b"BET\x1a") || sig(het) != format!("{:02x?}", b"HET\x1a") {
                return Some(fail("mpq_interop", format!("{:?} archive ({}), 2 files: header words +0x34 (BET position) = {:#x}, +0x3C (HET position) = {:#x}", ver, what, bet, het),
                    format!("bytes at the BET position: {}, at the HET position: {}", sig(bet), sig(het)), "'BET\\x1A' at the position stored at +0x34 and 'HET\\x1A' at the position stored at +0x3C".into()));
            }
            None
        };
        tried += 1;
        if let Some(f) = check("as built") { return f; }
    }
    none("mpq_interop", tried)
}

/// F1: a file larger than one sector added with compression 0 must read back bit-identically
fn f1_stored_multisector() -> String {
    use wow_mpq::{Archive, ArchiveBuilder, ListfileOption};
    let dir = tempfile::tempdir().unwrap();
    let path = dir.path().join("f1.mpq");
    let data: Vec<u8> = (0..10_000u32).map(|i| (i * 31 + 7) as u8).collect();
    let b = ArchiveBuilder::new().block_size(3).listfile_option(ListfileOption::None).add_file_data_with_options(data.clone(), "big.bin", 0, false, 0);
    if let Err(e) = b.build(&path) { return format!("{{\"oracle\":\"f1_stored_multisector\",\"error\":{:?}}}", e.to_string()); }
    let mut a = match Archive::open(&path) { Ok(a) => a, Err(e) => return fail("f1_stored_multisector", "10000-byte file, compression 0, 4 KiB sectors".into(), format!("open Err({})", e), "Ok".into()) };
    match a.read_file("big.bin") {
        Ok(got) if got == data => none("f1_stored_multisector", 1),
        Ok(got) => fail("f1_stored_multisector", "10000-byte file added with compression 0, 4 KiB sectors (block_size 3), V1".into(), format!("read_file returns {} bytes (sector offset table prepended)", got.len()), "the 10000 added bytes".into()),
        Err(e) => fail("f1_stored_multisector", "10000-byte file added with compression 0, 4 KiB sectors".into(), format!("read_file Err({})", e), "the 10000 added bytes".into()),
    }
}

fn minimal_mcnk(ix: u32, iy: u32) -> wow_adt::chunks::McnkChunk {
    use wow_adt::chunks::{McnkChunk, McnkFlags, McnkHeader};
    McnkChunk {
        header: McnkHeader { flags: McnkFlags { value: 0 }, index_x: ix, index_y: iy, n_layers: 0, n_doodad_refs: 0,
            multipurpose_field: McnkHeader::multipurpose_from_offsets(0, 0), ofs_layer: 0, ofs_refs: 0, ofs_alpha: 0, size_alpha: 0,
            ofs_shadow: 0, size_shadow: 0, area_id: 0, n_map_obj_refs: 0, holes_low_res: 0, unknown_but_used: 0, pred_tex: [0; 8],
            no_effect_doodad: [0; 8], unknown_8bytes: [0; 8], ofs_snd_emitters: 0, n_snd_emitters: 0, ofs_liquid: 0, size_liquid: 0,
            position: [0.0, 0.0, 0.0], ofs_mccv: 0, ofs_mclv: 0, unused: 0, _padding: [0; 8] },
        heights: None, normals: None, layers: None, materials: None, refs: None, doodad_refs: None, wmo_refs: None, alpha: None,
        shadow: None, vertex_colors: None, vertex_lighting: None, sound_emitters: None, liquid: None, doodad_disable: None, blend_batches: None,
    }
}

/// ADT builder output, walked by an independent chunk reader: framing tiles the file exactly; every non-zero MHDR
/// entry points at a chunk of the named type; MMID/MWID entries point at the start of the i-th name; MCIN has 256
/// entries pointing at MCNK chunks
fn adt_offsets(seed: u64) -> String {
    use wow_adt::{AdtBuilder, AdtVersion};
    let mut rng = Rng(seed ^ 0xAD7);
    let mut tried = 0;
    for round in 0..20 {
        let nm = (rng.next() % 4) as usize; let nw = (rng.next() % 4) as usize; let nc = 1 + (rng.next() % 3) as usize;
        let mut models: Vec<String> = (0..nm).map(|i| format!("world/m{}{}.m2", "x".repeat((rng.next() % 5) as usize), i)).collect();
        if nm >= 2 { models[0] = "world/m\u{f6}del_\u{e9}.m2".to_string(); }
        let wmos: Vec<String> = (0..nw).map(|i| format!("world/w{}{}.wmo", "y".repeat((rng.next() % 7) as usize), i)).collect();
        let ver = [AdtVersion::VanillaEarly, AdtVersion::WotLK, AdtVersion::TBC, AdtVersion::Cataclysm, AdtVersion::MoP][round % 5];
        let mut b = AdtBuilder::new().with_version(ver).add_texture("tileset/grass.blp");
        // optional top-level chunks in every combination the version allows (their MHDR entries must point at them)
        let (with_mfbo, with_mh2o) = (ver >= AdtVersion::TBC && (round / 5) % 2 == 0, ver >= AdtVersion::WotLK && round % 3 != 1);
        if with_mfbo { b = b.add_flight_bounds(wow_adt::chunks::MfboChunk { max_plane: [500; 9], min_plane: [-100; 9] }); }
        if with_mh2o {
            use wow_adt::chunks::mh2o::{Mh2oAttributes, Mh2oChunk, Mh2oEntry, Mh2oHeader, Mh2oInstance};
            let mut entries = vec![Mh2oEntry::default(); 256];
            entries[17] = Mh2oEntry { header: Mh2oHeader { offset_instances: 0, layer_count: 1, offset_attributes: 0 },
                instances: vec![Mh2oInstance { liquid_type: 5, liquid_object_or_lvf: 0, min_height_level: 10.0, max_height_level: 10.0, x_offset: 0, y_offset: 0, width: 8, height: 8, offset_exists_bitmap: 0, offset_vertex_data: 0 }],
                vertex_data: vec![None], exists_bitmaps: vec![None], attributes: Some(Mh2oAttributes { fishable: u64::MAX, deep: 0 }) };
            b = b.add_water_data(Mh2oChunk { entries });
        }
        for m in &models { b = b.add_model(m.clone()); }
        for w in &wmos { b = b.add_wmo(w.clone()); }
        for i in 0..nc {
            let mut ch = minimal_mcnk(i as u32, 0);
            // tinted vertex colours (r != b) on the first chunk of the versions that carry MCCV
            if i == 0 && ver >= AdtVersion::WotLK { ch.vertex_colors = Some(wow_adt::chunks::mcnk::MccvChunk { colors: (0..145).map(|k| wow_adt::chunks::mcnk::VertexColor { b: 200, g: 90, r: 10 + (k % 7) as u8, a: 255 }).collect() }); }
            b = b.add_mcnk_chunk(ch);
        }
        let desc = format!("ADT {:?} with models {:?}, wmos {:?}, {} MCNK, flight bounds {}, water {}", ver, models, wmos, nc, with_mfbo, with_mh2o);
        let bytes = match b.build().and_then(|a| a.to_bytes()) { Ok(x) => x, Err(_) => continue };
        tried += 1;
        // independent chunk walk
        let mut chunks: Vec<(String, usize, usize)> = Vec::new(); // (magic as stored reversed->forward, header pos, size)
        let mut p = 0usize;
        while p < bytes.len() {
            if p + 8 > bytes.len() { return fail("adt_offsets", desc, format!("{} trailing bytes at {}", bytes.len() - p, p), "chunk framing tiles the file exactly".into()); }
            let mg: String = bytes[p..p + 4].iter().rev().map(|&c| c as char).collect();
            let sz = u32::from_le_bytes([bytes[p + 4], bytes[p + 5], bytes[p + 6], bytes[p + 7]]) as usize;
            if p + 8 + sz > bytes.len() { return fail("adt_offsets", desc, format!("chunk {} at {} size {} runs past the end ({})", mg, p, sz, bytes.len()), "chunk framing tiles the file exactly".into()); }
            chunks.push((mg, p, sz));
            p += 8 + sz;
        }
        let find = |m: &str| chunks.iter().find(|c| c.0 == m).cloned();
        let mhdr = match find("MHDR") { Some(c) => c, None => return fail("adt_offsets", desc, "no MHDR".into(), "MHDR".into()) };
        let base = mhdr.1 + 8;
        let rd = |o: usize| u32::from_le_bytes([bytes[o], bytes[o + 1], bytes[o + 2], bytes[o + 3]]) as usize;
        for (i, name) in ["MCIN", "MTEX", "MMDX", "MMID", "MWMO", "MWID", "MDDF", "MODF", "MFBO", "MH2O", "MTXF"].iter().enumerate() {
            let off = rd(base + 4 + i * 4);
            if off == 0 { continue; }
            let at = base + off;
            let got: String = if at + 4 <= bytes.len() { bytes[at..at + 4].iter().rev().map(|&c| c as char).collect() } else { "<past end>".into() };
            if &got != name { return fail("adt_offsets", desc, format!("MHDR entry {} points at '{}' (file offset {})", name, got, at), format!("a {} chunk", name)); }
        }
        for (idxm, strm, names) in [("MMID", "MMDX", &models), ("MWID", "MWMO", &wmos)] {
            if let (Some(ic), Some(sc)) = (find(idxm), find(strm)) {
                let n = ic.2 / 4;
                if n != names.len() { return fail("adt_offsets", desc, format!("{} has {} entries", idxm, n), format!("{}", names.len())); }
                for i in 0..n {
                    let o = rd(ic.1 + 8 + i * 4);
                    let s0 = sc.1 + 8 + o;
                    let want = names[i].as_bytes();
                    if o + want.len() + 1 > sc.2 || &bytes[s0..s0 + want.len()] != want || bytes[s0 + want.len()] != 0 { return fail("adt_offsets", desc, format!("{} entry {} = {} does not point at {:?} in {}", idxm, i, o, names[i], strm), "offset of the i-th NUL-terminated name".into()); }
                }
            }
        }
        if ver >= AdtVersion::WotLK {
            // the first MCCV payload in the file belongs to chunk 0: 145 colours stored B,G,R,A
            if let Some(p0) = bytes.windows(4).position(|w| w == b"VCCM") {
                let sz = rd(p0 + 4);
                if sz != 580 || p0 + 8 + 8 > bytes.len() || bytes[p0 + 8..p0 + 12] != [200, 90, 10, 255] || bytes[p0 + 12..p0 + 16] != [200, 90, 11, 255] {
                    return fail("adt_offsets", desc, format!("MCCV of chunk 0: size {}, first colours {:?}", sz, &bytes[p0 + 8..(p0 + 16).min(bytes.len())]), "size 580, colours stored B,G,R,A = [200, 90, 10, 255], [200, 90, 11, 255]".into());
                }
            } else { return fail("adt_offsets", desc, "no MCCV sub-chunk in the file".into(), "chunk 0 carries vertex colours".into()); }
        }
        if let Some(mc) = find("MCIN") {
            if mc.2 != 256 * 16 { return fail("adt_offsets", desc, format!("MCIN size {}", mc.2), "4096 (256 entries)".into()); }
            for i in 0..256 {
                let o = rd(mc.1 + 8 + i * 16); let sz = rd(mc.1 + 8 + i * 16 + 4);
                if i < nc { let got: String = if o + 4 <= bytes.len() { bytes[o..o + 4].iter().rev().map(|&c| c as char).collect() } else { "<past end>".into() };
                    if got != "MCNK" || o + sz > bytes.len() { return fail("adt_offsets", desc, format!("MCIN entry {} -> '{}' at {} size {}", i, got, o, sz), "an MCNK chunk".into()); } }
                else if o != 0 || sz != 0 { return fail("adt_offsets", desc, format!("MCIN entry {} = ({}, {})", i, o, sz), "zero padding".into()); }
            }
        }
    }
    none("adt_offsets", tried)
}


// ---------------------------------------------------------------------------------------------- wow-wmo
fn wmo_base_root(v: wow_wmo::WmoVersion) -> wow_wmo::WmoRoot {
    use wow_wmo::*;
    let z = Vec3 { x: 0.0, y: 0.0, z: 0.0 };
    WmoRoot { version: v, materials: vec![], groups: vec![], portals: vec![], portal_references: vec![], visible_block_lists: vec![],
        lights: vec![], doodad_defs: vec![], doodad_sets: vec![], bounding_box: BoundingBox { min: z, max: z }, textures: vec![],
        texture_offset_index_map: std::collections::HashMap::new(),
        header: WmoHeader { n_materials: 0, n_groups: 0, n_portals: 0, n_lights: 0, n_doodad_names: 0, n_doodad_defs: 0, n_doodad_sets: 0,
            flags: WmoFlags::empty(), ambient_color: Color { r: 1, g: 2, b: 3, a: 4 } },
        skybox: None, convex_volume_planes: None }
}

const WMO_VERSIONS: [wow_wmo::WmoVersion; 6] = [wow_wmo::WmoVersion::Classic, wow_wmo::WmoVersion::Tbc, wow_wmo::WmoVersion::Wotlk,
    wow_wmo::WmoVersion::Cataclysm, wow_wmo::WmoVersion::Mop, wow_wmo::WmoVersion::Wod];

/// independent chunk walk: (reversed id as written, payload offset, payload length); Err if the framing does not tile the file
fn wmo_walk(bytes: &[u8]) -> Result<Vec<([u8; 4], usize, usize)>, String> {
    let mut out = Vec::new();
    let mut p = 0usize;
    while p < bytes.len() {
        if p + 8 > bytes.len() { return Err(format!("truncated chunk header at byte {}", p)); }
        let id = [bytes[p + 3], bytes[p + 2], bytes[p + 1], bytes[p]];
        let n = u32::from_le_bytes([bytes[p + 4], bytes[p + 5], bytes[p + 6], bytes[p + 7]]) as usize;
        if !id.iter().all(|c| c.is_ascii_uppercase() || c.is_ascii_digit()) { return Err(format!("byte {} is not a chunk header (id {:02x?}): the previous size field is wrong", p, id)); }
        if p + 8 + n > bytes.len() { return Err(format!("chunk {} at byte {} declares {} bytes, file has {}", String::from_utf8_lossy(&id), p, n, bytes.len() - p - 8)); }
        out.push((id, p + 8, n));
        p += 8 + n;
    }
    Ok(out)
}

/// WmoWriter::write_root on populated roots, checked by an independent chunk walk: framing tiles the file (every size
/// field equals the payload written), MOHD counts equal the list lengths, MOTX/MOGN payloads are the names NUL-terminated,
/// every MOGI name offset points at that group's name; and WmoParser::parse_root returns the names / materials written.
fn wmo_roundtrip(seed: u64) -> String {
    use wow_wmo::*;
    let mut rng = Rng(seed ^ 0x3370);
    let mut tried = 0;
    for &v in WMO_VERSIONS.iter() {
        for round in 0..4u32 {
            tried += 1;
            let mut r = wmo_base_root(v);
            let ntex = (round + (rng.next() % 2) as u32) as usize;
            for i in 0..ntex { r.textures.push(format!("tex\\shared_{}{}.blp", "x".repeat(i), i)); }
            let nmat = round as usize;
            for i in 0..nmat {
                r.materials.push(WmoMaterial { flags: WmoMaterialFlags::from_bits_truncate(i as u32), shader: i as u32, blend_mode: 1, texture1: 0,
                    emissive_color: Color { r: 9, g: 8, b: 7, a: 6 }, sidn_color: Color { r: 1, g: 1, b: 1, a: 1 }, framebuffer_blend: Color { r: 0, g: 0, b: 0, a: 0 },
                    texture2: 0, diffuse_color: Color { r: 5, g: 5, b: 5, a: 5 }, ground_type: 3 + i as u32 });
            }
            let ngrp = (round + 1) as usize;
            for i in 0..ngrp {
                let f = i as f32;
                r.groups.push(WmoGroupInfo { flags: WmoGroupFlags::from_bits_truncate(1 << i), bounding_box: BoundingBox { min: Vec3 { x: -f, y: -f, z: -f }, max: Vec3 { x: f, y: f, z: f } },
                    // last round: a later name is a proper prefix / inner substring of an earlier one (offset tables must not alias them)
                    name: if round == 3 { ["Hall_Main", "Hall", "Tower", "Main"][i].to_string() } else { format!("grp{}_{}", "n".repeat(i), i) } });
            }
            if round > 0 { r.doodad_sets.push(WmoDoodadSet { name: "Set_Default".into(), start_doodad: 0, n_doodads: 0 }); }
            r.header.ambient_color = Color { r: 0x11 + round as u8, g: 0x22, b: 0x33, a: 0x44 };
            for i in 0..round as u16 { r.portal_references.push(WmoPortalReference { portal_index: i, group_index: 0x0102 + i, side: if i % 2 == 0 { 0xFFFF } else { 0x1234 } }); }
            r.header.n_materials = nmat as u32; r.header.n_groups = ngrp as u32; r.header.n_doodad_sets = r.doodad_sets.len() as u32;
            // stale stored counts (an edited root): the written counts must be measured from the lists
            if round == 2 { r.header.n_doodad_names = 7; r.header.n_doodad_defs = 5; r.header.n_lights = 3; }
            let desc = format!("root for {:?}: {} textures {:?}, {} materials, groups {:?}, {} doodad sets, ambient {:?}, portal refs {:?}", v, ntex, r.textures, nmat, r.groups.iter().map(|g| g.name.clone()).collect::<Vec<_>>(), r.doodad_sets.len(), r.header.ambient_color, r.portal_references);
            let mut out = std::io::Cursor::new(Vec::new());
            match catch(std::panic::AssertUnwindSafe(|| WmoWriter::new().write_root(&mut out, &r, v))) {
                Err(p) => return fail("wmo_roundtrip", desc, format!("write_root panic: {}", p), "Ok".into()),
                Ok(Err(e)) => return fail("wmo_roundtrip", desc, format!("write_root Err({})", e), "Ok".into()),
                Ok(Ok(())) => {}
            }
            let bytes = out.into_inner();
            let chunks = match wmo_walk(&bytes) { Ok(c) => c, Err(e) => return fail("wmo_roundtrip", desc, format!("chunk framing broken: {}", e), "every size field equals the payload bytes written".into()) };
            let find = |id: &[u8; 4]| chunks.iter().find(|c| &c.0 == id).map(|c| &bytes[c.1..c.1 + c.2]);
            let mohd = match find(b"MOHD") { Some(m) if m.len() >= 28 => m, _ => return fail("wmo_roundtrip", desc, "no MOHD chunk of at least 28 bytes".into(), "MOHD".into()) };
            let cnt = |i: usize| u32::from_le_bytes([mohd[4 * i], mohd[4 * i + 1], mohd[4 * i + 2], mohd[4 * i + 3]]) as usize;
            let want = [nmat, ngrp, 0, 0, 0, 0, r.doodad_sets.len()];
            for i in 0..7 { if cnt(i) != want[i] { return fail("wmo_roundtrip", desc, format!("MOHD count #{} is {}", i, cnt(i)), format!("{}", want[i])); } }
            let names_blob = |names: Vec<&String>| { let mut b = Vec::new(); for n in names { b.extend_from_slice(n.as_bytes()); b.push(0); } b };
            if ntex > 0 && find(b"MOTX") != Some(&names_blob(r.textures.iter().collect())[..]) { return fail("wmo_roundtrip", desc, "MOTX payload is not the texture names, NUL-terminated, in order".into(), "names".into()); }
            let mogn = names_blob(r.groups.iter().map(|g| &g.name).collect());
            if find(b"MOGN") != Some(&mogn[..]) { return fail("wmo_roundtrip", desc, "MOGN payload is not the group names, NUL-terminated, in order".into(), "names".into()); }
            let mogi = match find(b"MOGI") { Some(m) if m.len() == 32 * ngrp => m, Some(m) => return fail("wmo_roundtrip", desc, format!("MOGI has {} bytes", m.len()), format!("{}", 32 * ngrp)), None => return fail("wmo_roundtrip", desc, "no MOGI".into(), "MOGI".into()) };
            for (i, g) in r.groups.iter().enumerate() {
                let off = u32::from_le_bytes([mogi[32 * i + 28], mogi[32 * i + 29], mogi[32 * i + 30], mogi[32 * i + 31]]) as usize;
                let at = mogn.get(off..).map(|s| &s[..s.iter().position(|&b| b == 0).unwrap_or(s.len())]);
                if at != Some(g.name.as_bytes()) { return fail("wmo_roundtrip", desc, format!("MOGI entry {} has name offset {} which names {:?}", i, off, at.map(|b| String::from_utf8_lossy(b).to_string())), format!("offset of {:?}", g.name)); }
            }
            if mohd.len() >= 32 && mohd[28..32] != [r.header.ambient_color.b, r.header.ambient_color.g, r.header.ambient_color.r, r.header.ambient_color.a] { return fail("wmo_roundtrip", desc, format!("MOHD ambient colour bytes {:02x?}", &mohd[28..32]), format!("B,G,R,A = {:02x?}", [r.header.ambient_color.b, r.header.ambient_color.g, r.header.ambient_color.r, r.header.ambient_color.a])); }
            if nmat > 0 { match find(b"MOMT") { Some(m) if m.len() == 64 * nmat => {}, Some(m) => return fail("wmo_roundtrip", desc, format!("MOMT declares {} bytes", m.len()), format!("{} (64 per material written)", 64 * nmat)), None => return fail("wmo_roundtrip", desc, "no MOMT".into(), "MOMT".into()) } }
            // parse side (legacy parser, the writer's counterpart)
            let back = match catch(std::panic::AssertUnwindSafe(|| WmoParser::new().parse_root(&mut std::io::Cursor::new(bytes.clone())))) {
                Err(p) => return fail("wmo_roundtrip", desc, format!("parse_root panic: {}", p), "Ok".into()),
                Ok(Err(e)) => return fail("wmo_roundtrip", desc, format!("parse_root Err({})", e), "Ok".into()),
                Ok(Ok(b)) => b };
            if back.textures != r.textures { return fail("wmo_roundtrip", desc, format!("parsed textures {:?}", back.textures), "the written textures".into()); }
            let gn = |x: &WmoRoot| x.groups.iter().map(|g| g.name.clone()).collect::<Vec<_>>();
            if gn(&back) != gn(&r) { return fail("wmo_roundtrip", desc, format!("parsed group names {:?}", gn(&back)), format!("{:?}", gn(&r))); }
            if back.materials.len() != nmat || back.doodad_sets.len() != r.doodad_sets.len() { return fail("wmo_roundtrip", desc, format!("parsed {} materials, {} doodad sets", back.materials.len(), back.doodad_sets.len()), format!("{} / {}", nmat, r.doodad_sets.len())); }
            if format!("{:?}", back.header.ambient_color) != format!("{:?}", r.header.ambient_color) { return fail("wmo_roundtrip", desc, format!("parsed ambient colour {:?}", back.header.ambient_color), format!("{:?}", r.header.ambient_color)); }
            if format!("{:?}", back.portal_references) != format!("{:?}", r.portal_references) { return fail("wmo_roundtrip", desc, format!("parsed portal references {:?}", back.portal_references), format!("{:?}", r.portal_references)); }
            for (a, b) in back.materials.iter().zip(r.materials.iter()) {
                if (a.flags.bits(), a.shader, a.blend_mode, a.texture1, a.texture2, a.ground_type) != (b.flags.bits(), b.shader, b.blend_mode, b.texture1, b.texture2, b.ground_type) { return fail("wmo_roundtrip", desc, format!("material parsed as {:?}", a), format!("{:?}", b)); }
            }
        }
    }
    none("wmo_roundtrip", tried)
}

/// native confirmation of the recorded (unrepaired) wow-wmo findings; `which` selects one
fn wmo_known(which: &str) -> String {
    use wow_wmo::*;
    let v = WmoVersion::Wotlk;
    match which {
        "group_parser_stub" => {
            let z = Vec3 { x: 0.0, y: 0.0, z: 0.0 };
            let g = WmoGroup { header: WmoGroupHeader { flags: WmoGroupFlags::empty(), bounding_box: BoundingBox { min: z, max: z }, name_offset: 0, group_index: 0 },
                materials: vec![], vertices: vec![Vec3 { x: 1.0, y: 2.0, z: 3.0 }], normals: vec![], tex_coords: vec![], batches: vec![], indices: vec![0, 0, 0],
                vertex_colors: None, bsp_nodes: None, liquid: None, doodad_refs: None };
            let mut out = std::io::Cursor::new(Vec::new());
            if let Err(e) = WmoWriter::new().write_group(&mut out, &g, v) { return format!("{{\"oracle\":\"wmo_known\",\"error\":{:?}}}", e.to_string()); }
            match WmoGroupParser::new().parse_group(&mut std::io::Cursor::new(out.into_inner()), 0) {
                Ok(_) => none("wmo_known", 1),
                Err(e) => fail("wmo_known", "write_group of a one-vertex group, then WmoGroupParser::parse_group".into(), format!("Err({})", e), "the written group".into()),
            }
        }
        "parse_wmo_header" => {
            let r = wmo_base_root(v);
            let mut out = std::io::Cursor::new(Vec::new());
            if let Err(e) = WmoWriter::new().write_root(&mut out, &r, v) { return format!("{{\"oracle\":\"wmo_known\",\"error\":{:?}}}", e.to_string()); }
            match parse_wmo(&mut std::io::Cursor::new(out.into_inner())) {
                Ok(_) => none("wmo_known", 1),
                Err(e) => fail("wmo_known", "write_root of an empty root, then parse_wmo".into(), format!("Err({})", e), "Ok".into()),
            }
        }
        "root_bbox" => {
            let mut r = wmo_base_root(v);
            r.bounding_box = BoundingBox { min: Vec3 { x: -5.0, y: -5.0, z: -5.0 }, max: Vec3 { x: 5.0, y: 5.0, z: 5.0 } };
            let mut out = std::io::Cursor::new(Vec::new());
            if let Err(e) = WmoWriter::new().write_root(&mut out, &r, v) { return format!("{{\"oracle\":\"wmo_known\",\"error\":{:?}}}", e.to_string()); }
            match WmoParser::new().parse_root(&mut std::io::Cursor::new(out.into_inner())) {
                Ok(b) if format!("{:?}", b.bounding_box) == format!("{:?}", r.bounding_box) => none("wmo_known", 1),
                Ok(b) => fail("wmo_known", "root without groups, bounding box (-5,-5,-5)..(5,5,5), write_root then parse_root".into(), format!("{:?}", b.bounding_box), format!("{:?}", r.bounding_box)),
                Err(e) => fail("wmo_known", "root with bounding box".into(), format!("Err({})", e), "Ok".into()),
            }
        }
        "doodad_name_offset" => {
            let mut r = wmo_base_root(v);
            r.doodad_defs.push(WmoDoodadDef { name_offset: 5, position: Vec3 { x: 0.0, y: 0.0, z: 0.0 }, orientation: [0.0, 0.0, 0.0, 1.0], scale: 1.0, color: Color { r: 0, g: 0, b: 0, a: 0 }, set_index: 0 });
            r.header.n_doodad_defs = 1; r.header.n_doodad_names = 1;
            let mut out = std::io::Cursor::new(Vec::new());
            if let Err(e) = WmoWriter::new().write_root(&mut out, &r, v) { return format!("{{\"oracle\":\"wmo_known\",\"error\":{:?}}}", e.to_string()); }
            match WmoParser::new().parse_root(&mut std::io::Cursor::new(out.into_inner())) {
                Ok(b) if b.doodad_defs.len() == 1 && b.doodad_defs[0].name_offset == 5 => none("wmo_known", 1),
                Ok(b) => fail("wmo_known", "one doodad definition with name_offset 5, write_root then parse_root".into(), format!("name_offset {:?}", b.doodad_defs.iter().map(|d| d.name_offset).collect::<Vec<_>>()), "[5]".into()),
                Err(e) => fail("wmo_known", "root with one doodad definition".into(), format!("Err({})", e), "Ok".into()),
            }
        }
        "skybox_wotlk" => {
            let mut r = wmo_base_root(v);
            r.skybox = Some("sky\\box.m2".to_string());
            let mut out = std::io::Cursor::new(Vec::new());
            if let Err(e) = WmoWriter::new().write_root(&mut out, &r, v) { return format!("{{\"oracle\":\"wmo_known\",\"error\":{:?}}}", e.to_string()); }
            match WmoParser::new().parse_root(&mut std::io::Cursor::new(out.into_inner())) {
                Ok(b) if b.skybox == r.skybox => none("wmo_known", 1),
                Ok(b) => fail("wmo_known", "WotLK root with skybox Some(\"sky\\\\box.m2\"), write_root then parse_root".into(), format!("{:?}", b.skybox), format!("{:?}", r.skybox)),
                Err(e) => fail("wmo_known", "root with skybox".into(), format!("Err({})", e), "Ok".into()),
            }
        }
        _ => format!("{{\"oracle\":\"wmo_known\",\"error\":\"unknown finding selector\"}}"),
    }
}

// ---------------------------------------------------------------------------------------------- ADPCM (reference decoder)
const ADPCM_NEXT: [i8; 32] = [-1, 0, -1, 4, -1, 2, -1, 6, -1, 1, -1, 5, -1, 3, -1, 7, -1, 1, -1, 5, -1, 3, -1, 7, -1, 2, -1, 4, -1, 6, -1, 8];
const ADPCM_STEP: [i32; 89] = [7, 8, 9, 10, 11, 12, 13, 14, 16, 17, 19, 21, 23, 25, 28, 31, 34, 37, 41, 45, 50, 55, 60, 66,
    73, 80, 88, 97, 107, 118, 130, 143, 157, 173, 190, 209, 230, 253, 279, 307, 337, 371, 408, 449,
    494, 544, 598, 658, 724, 796, 876, 963, 1060, 1166, 1282, 1411, 1552, 1707, 1878, 2066, 2272,
    2499, 2749, 3024, 3327, 3660, 4026, 4428, 4871, 5358, 5894, 6484, 7132, 7845, 8630, 9493,
    10442, 11487, 12635, 13899, 15289, 16818, 18500, 20350, 22385, 24623, 27086, 29794, 32767];

/// StormLib-style ADPCM decoder written from the format description (per-channel predictor/step index, alternating channels,
/// 0x80 / 0x81 markers acting on the channel whose turn it is); None where the library is allowed to reject the stream
fn adpcm_reference(input: &[u8], out_size: usize, cc: usize) -> Option<Vec<u8>> {
    if input.len() < 2 + 2 * cc || input[1] > 31 { return None; }
    let shift = input[1] as i32;
    let mut pos = 2;
    let mut pred = vec![0i32; cc];
    let mut step = vec![0x2Cusize; cc];
    let mut out = Vec::new();
    for c in 0..cc { let s = i16::from_le_bytes([input[pos], input[pos + 1]]); pred[c] = s as i32; out.extend_from_slice(&s.to_le_bytes()); pos += 2; }
    let mut ch = cc - 1;
    while pos < input.len() && out.len() < out_size {
        let b = input[pos]; pos += 1;
        let c = (ch + 1) % cc;
        if b == 0x80 { if step[c] > 0 { step[c] -= 1; } out.extend_from_slice(&(pred[c] as i16).to_le_bytes()); ch = c; }
        else if b == 0x81 { step[c] = (step[c] + 8).min(0x58); }
        else {
            let ss = ADPCM_STEP[step[c]];
            let mut d = ss >> shift;
            for k in 0..6 { if b & (1 << k) != 0 { d += ss >> k; } }
            let p = if b & 0x40 != 0 { pred[c] - d } else { pred[c] + d };
            pred[c] = p.clamp(-32768, 32767);
            out.extend_from_slice(&(pred[c] as i16).to_le_bytes());
            step[c] = (step[c] as i32 + ADPCM_NEXT[(b & 0x1F) as usize] as i32).clamp(0, 88) as usize;
            ch = c;
        }
    }
    Some(out)
}

/// ADPCM decoder against the reference on marker-rich random streams (mono and stereo); and the lossy round trip keeps
/// the length and the channel interleaving (a jump in one channel does not disturb the other)
fn adpcm_oracle(seed: u64) -> String {
    use wow_mpq::compression::{decompress, compress};
    let mut rng = Rng(seed ^ 0xADC);
    let mut tried = 0;
    for round in 0..400u64 {
        let cc = 1 + (round % 2) as usize;
        let n = 1 + (rng.next() % 24) as usize;
        let mut inp = vec![0u8, (rng.next() % 9) as u8];
        for _ in 0..cc { inp.push(rng.next() as u8); inp.push(rng.next() as u8); }
        for _ in 0..n { let r = rng.next() % 10; inp.push(if r == 0 { 0x80 } else if r <= 2 { 0x81 } else { (rng.next() % 0x80) as u8 }); }
        let out_size = 2 * (cc + n);
        let want = match adpcm_reference(&inp, out_size, cc) { Some(w) => w, None => continue };
        tried += 1;
        let flag = if cc == 1 { 0x40u8 } else { 0x80u8 };
        let i2 = inp.clone();
        match catch(move || decompress(&i2, flag, out_size)) {
            Err(p) => return fail("adpcm", format!("decompress({:02x?}, {:#x}, {})", inp, flag, out_size), format!("panic: {}", p), "no panic".into()),
            Ok(Err(_)) => {}   // the read-side size validator may reject streams that end early; not a decoder statement
            Ok(Ok(got)) => if got != want { return fail("adpcm", format!("decompress({:02x?}, {:#x}, {}) [{} channel(s)]", inp, flag, out_size, cc), format!("{:02x?}", got), format!("{:02x?} (reference decoder)", want)); }
        }
    }
    // interleaving through the lossy pair: left = ramp with one big jump, right = constant
    for jump_at in [3usize, 8, 15] {
        tried += 1;
        let frames = 24usize;
        let mut pcm = Vec::new();
        for i in 0..frames { let l: i16 = if i >= jump_at { 20000 } else { (i as i16) * 10 }; let r: i16 = 1234; pcm.extend_from_slice(&l.to_le_bytes()); pcm.extend_from_slice(&r.to_le_bytes()); }
        let p2 = pcm.clone();
        let c = match catch(move || compress(&p2, 0x80)) { Ok(Ok(c)) => c, _ => continue };
        if c.is_empty() || c[0] != 0x80 { continue; }   // stored raw
        let c2 = c.clone(); let n = pcm.len();
        match catch(move || decompress(&c2[1..], 0x80, n)) {
            Ok(Ok(back)) => {
                if back.len() != pcm.len() { return fail("adpcm", format!("stereo PCM, {} frames, left jumps at frame {}", frames, jump_at), format!("{} bytes after compress -> decompress", back.len()), format!("{}", pcm.len())); }
                for i in 0..frames { let r = i16::from_le_bytes([back[4 * i + 2], back[4 * i + 3]]); if (r as i32 - 1234).abs() > 600 { return fail("adpcm", format!("stereo PCM, {} frames, constant right channel 1234, left jumps to 20000 at frame {}", frames, jump_at), format!("right sample {} decodes as {}", i, r), "about 1234 (channels are independent)".into()); } }
            }
            _ => {}
        }
    }
    none("adpcm", tried)
}


/// wow-cdbc: every access path agrees with a hand decoding of a mixed-width table with a narrow array field
/// (eager parser, lazy random access, lazy iterator), for every record index
fn dbc_paths(seed: u64) -> String {
    use std::sync::Arc;
    use wow_cdbc::{DbcParser, FieldType, LazyDbcParser, Schema, SchemaField, Value};
    let mut rng = Rng(seed ^ 0xD8C);
    let mut tried = 0;
    for round in 0..12u32 {
        let n = 1 + (rng.next() % 7) as u32;
        let mk = || { let mut sc = Schema::new("Mixed"); sc.add_field(SchemaField::new("ID", FieldType::UInt32)); sc.add_field(SchemaField::new("Level", FieldType::UInt16));
            sc.add_field(SchemaField::new("Flags", FieldType::UInt8)); sc.add_field(SchemaField::new("Delta", FieldType::Int8));
            sc.add_field(SchemaField::new_array("Arr", FieldType::UInt16, 2)); sc };
        // record: u32, u16, u8, i8, u16[2]  = 12 bytes, 6 schema values (array expanded)
        let mut data = b"WDBC".to_vec();
        data.extend_from_slice(&n.to_le_bytes()); data.extend_from_slice(&6u32.to_le_bytes()); data.extend_from_slice(&12u32.to_le_bytes()); data.extend_from_slice(&1u32.to_le_bytes());
        let mut want: Vec<(u32, u16, u8, i8, [u16; 2])> = Vec::new();
        for i in 0..n { let r = (100 + i + round, rng.next() as u16, rng.next() as u8, rng.next() as i8, [rng.next() as u16, rng.next() as u16]);
            data.extend_from_slice(&r.0.to_le_bytes()); data.extend_from_slice(&r.1.to_le_bytes()); data.push(r.2); data.push(r.3 as u8);
            data.extend_from_slice(&r.4[0].to_le_bytes()); data.extend_from_slice(&r.4[1].to_le_bytes()); want.push(r); }
        data.push(0);
        let parser = match DbcParser::parse_bytes(&data).and_then(|p| p.with_schema(mk())) { Ok(p) => p, Err(_) => continue };
        let eager = match parser.parse_records() { Ok(r) => r, Err(e) => return fail("dbc_paths", format!("{} records of (u32,u16,u8,i8,u16[2])", n), format!("parse_records Err({})", e), "Ok".into()) };
        tried += 1;
        let show = |w: &(u32, u16, u8, i8, [u16; 2])| format!("[UInt32({}), UInt16({}), UInt8({}), Int8({}), Array([UInt16({}), UInt16({})])]", w.0, w.1, w.2, w.3, w.4[0], w.4[1]);
        for (i, w) in want.iter().enumerate() {
            let got = eager.get_record(i).map(|r| format!("{:?}", r.values()));
            if got.as_deref() != Some(&show(w)[..]) { return fail("dbc_paths", format!("{} records of (u32,u16,u8,i8,u16[2]); eager record {}", n, i), format!("{:?}", got), show(w)); }
        }
        let schema = mk();
        let sb = Arc::new(eager.string_block().clone());
        let lazy = LazyDbcParser::new(parser.data(), parser.header(), Some(&schema), sb);
        for (i, w) in want.iter().enumerate() {
            let got = lazy.get_record(i as u32).ok().map(|r| format!("{:?}", r.values()));
            if got.as_deref() != Some(&show(w)[..]) { return fail("dbc_paths", format!("{} records of (u32,u16,u8,i8,u16[2]); LazyDbcParser::get_record({})", n, i), format!("{:?}", got), show(w)); }
        }
        for (i, rec) in lazy.record_iterator().enumerate() {
            let got = rec.ok().map(|r| format!("{:?}", r.values()));
            if i < want.len() && got.as_deref() != Some(&show(&want[i])[..]) { return fail("dbc_paths", format!("{} records; lazy iterator record {}", n, i), format!("{:?}", got), show(&want[i])); }
        }
    }
    none("dbc_paths", tried)
}


// ---- C11: extraction containment ------------------------------------------------------------
fn hostile_names(rng: &mut Rng) -> Vec<String> {
    let atoms = ["..", ".", "", "a", "dir", "file.txt", "C:", "c:x", "...", ".. ", "..a", "a..", "\u{00e9}t\u{00e9}", "x:y:z", "~", "-"];
    let seps = ["\\", "/", "\\\\", "//", "\\/"];
    let mut v: Vec<String> = vec![
        "..\\..\\escape.txt".into(), "../../escape.txt".into(), "/abs/escape.txt".into(), "\\abs\\escape.txt".into(),
        "C:\\Windows\\x.txt".into(), "dir\\..\\..\\..\\x".into(), "a/./b/../../../c".into(), "..".into(), ".".into(), "".into(),
        "a\\b\\c.txt".into(), "\\\\server\\share\\x".into(), "a\\..".into(), "..\\".into(), "/".into(), "\\".into(), "a:b".into(),
    ];
    for _ in 0..400 {
        let n = 1 + (rng.next() % 6) as usize;
        let mut s = String::new();
        if rng.next() % 4 == 0 { s.push_str(seps[(rng.next() % seps.len() as u64) as usize]); }
        for i in 0..n {
            if i > 0 { s.push_str(seps[(rng.next() % seps.len() as u64) as usize]); }
            s.push_str(atoms[(rng.next() % atoms.len() as u64) as usize]);
        }
        if rng.next() % 5 == 0 { s.push_str(seps[(rng.next() % seps.len() as u64) as usize]); }
        v.push(s);
    }
    v
}

/// the library's sanitiser against std::path's own component parser (also exercises the assumed contract
/// "joining a relative path of normal components stays beneath the base")
fn extract_paths(seed: u64) -> String {
    use std::path::{Component, Path};
    let mut rng = Rng(seed ^ 0xC11);
    let names = hostile_names(&mut rng);
    let base = Path::new("/base/out");
    for n in &names {
        let out = wow_mpq::path::sanitize_extraction_path(n);
        let p = Path::new(&out);
        if !p.components().all(|c| matches!(c, Component::Normal(_))) {
            return fail("extract_paths", format!("entry name {:?}", n), format!("sanitised to {:?}, which has a non-normal component", out), "only normal components".into());
        }
        if out.contains(':') || out.contains('\\') {
            return fail("extract_paths", format!("entry name {:?}", n), format!("sanitised to {:?}", out), "no ':' and no foreign separator".into());
        }
        let joined = base.join(&out);
        if !joined.starts_with(base) || joined.components().any(|c| matches!(c, Component::ParentDir)) {
            return fail("extract_paths", format!("entry name {:?}", n), format!("joins to {:?}", joined), "a path beneath /base/out".into());
        }
    }
    // benign names keep every component
    for (n, want) in [("a\\b\\c.txt", "a/b/c.txt"), ("Interface/Icons\\x.blp", "Interface/Icons/x.blp"), ("file", "file"), ("..\\..\\etc\\passwd", "etc/passwd")] {
        let out = wow_mpq::path::sanitize_extraction_path(n);
        if cfg!(unix) && out != want {
            return fail("extract_paths", format!("entry name {:?}", n), format!("{:?}", out), format!("{:?}", want));
        }
    }
    none("extract_paths", names.len() + 4)
}

fn walk_files(dir: &std::path::Path, out: &mut Vec<std::path::PathBuf>) {
    if let Ok(rd) = std::fs::read_dir(dir) {
        for e in rd.flatten() {
            let p = e.path();
            if p.is_dir() { walk_files(&p, out); } else { out.push(p); }
        }
    }
}

/// end to end: the command-line tool of the tree under test extracting an archive with hostile names
fn cli_extract(binary: &str) -> String {
    use wow_mpq::{ArchiveBuilder, ListfileOption};
    if binary.is_empty() || !std::path::Path::new(binary).exists() {
        return format!("{{\"oracle\":\"cli_extract\",\"error\":\"no warcraft-rs binary at {}\"}}", binary);
    }
    let sandbox = tempfile::tempdir().unwrap();
    let abs_target = format!("/tmp/wrv_c11_abs_{}.txt", std::process::id());
    let _ = std::fs::remove_file(&abs_target);
    let names: Vec<String> = vec![
        "good\\inner.txt".into(), "..\\..\\escape_bs.txt".into(), "../../escape_fs.txt".into(), "deep\\..\\..\\..\\escape_mixed.txt".into(),
        abs_target.clone(), "C:\\escape_drive.txt".into(), "..".into(),
    ];
    let mut tried = 0;
    for (preserve, explicit, chain) in [(true, false, false), (true, true, false), (true, false, true), (true, true, true), (false, false, false), (false, true, true)] {
        {
            let base = sandbox.path().join(format!("s{}{}{}", preserve as u8, explicit as u8, chain as u8));
            let outdir = base.join("l1").join("l2").join("out");
            std::fs::create_dir_all(&outdir).unwrap();
            let arch = base.join("hostile.mpq");
            let mut b = ArchiveBuilder::new().listfile_option(ListfileOption::Generate);
            for (i, n) in names.iter().enumerate() { b = b.add_file_data(format!("payload {}", i).into_bytes(), n); }
            if let Err(e) = b.build(&arch) { return format!("{{\"oracle\":\"cli_extract\",\"error\":{:?}}}", e.to_string()); }
            let mut cmd = std::process::Command::new(binary);
            cmd.arg("mpq").arg("extract").arg(&arch).arg("--output").arg(&outdir).arg("--skip-errors");
            if preserve { cmd.arg("--preserve-paths"); }
            if chain {
                let patch = base.join("patch.mpq");
                let pb = ArchiveBuilder::new().listfile_option(ListfileOption::Generate).add_file_data(b"patched".to_vec(), "..\\..\\escape_patch.txt").add_file_data(b"p".to_vec(), "good\\inner.txt");
                if let Err(e) = pb.build(&patch) { return format!("{{\"oracle\":\"cli_extract\",\"error\":{:?}}}", e.to_string()); }
                cmd.arg("--patch").arg(&patch);
            }
            if explicit { cmd.arg("--"); for n in &names { cmd.arg(n); } cmd.arg("..\\..\\escape_patch.txt"); }
            let res = cmd.output();
            tried += 1;
            let mut files = Vec::new();
            walk_files(&base, &mut files);
            let mut outside: Vec<String> = files.iter().filter(|f| !f.starts_with(&outdir) && **f != arch && !f.ends_with("patch.mpq")).map(|f| f.display().to_string()).collect();
            if std::path::Path::new(&abs_target).exists() { outside.push(abs_target.clone()); let _ = std::fs::remove_file(&abs_target); }
            if !outside.is_empty() {
                return fail("cli_extract", format!("archive with entry names {:?}; warcraft-rs mpq extract --output <out>{}{}", names, if preserve { " --preserve-paths" } else { "" }, if explicit { " <names>" } else { "" }) + if chain { " --patch <patch.mpq>" } else { "" },
                    format!("files created outside the output directory: {:?}", outside), "files only beneath the output directory".into());
            }
            if let Err(e) = res { return format!("{{\"oracle\":\"cli_extract\",\"error\":{:?}}}", e.to_string()); }
            // not vacuous: the benign entry is extracted where it belongs
            let want = if preserve { outdir.join("good").join("inner.txt") } else { outdir.join("inner.txt") };
            if !want.exists() {
                return fail("cli_extract", format!("archive with benign entry good\\inner.txt among hostile names; preserve={} explicit={} chain={}", preserve, explicit, chain),
                    format!("{} was not created", want.display()), "the benign entry extracted beneath the output directory".into());
            }
        }
    }
    none("cli_extract", tried)
}


// ---- C06: every add option of the editor must give a file that reads back after reopen ----------------------------
fn mod_options(seed: u64) -> String {
    use wow_mpq::{AddFileOptions, Archive, ArchiveBuilder, ListfileOption, MutableArchive};
    use wow_mpq::compression::CompressionMethod;
    let mut rng = Rng(seed ^ 0x0F7);
    let mut tried = 0;
    for (ci, comp) in [CompressionMethod::None, CompressionMethod::Zlib].into_iter().enumerate() {
        for (enc, fix) in [(false, false), (true, false), (true, true)] {
            for name in ["plain.bin", "dir\\inner.bin"] {
                for len in [0usize, 1, 3, 4, 5, 64, 700] {
                    let dir = tempfile::tempdir().unwrap();
                    let path = dir.path().join("m.mpq");
                    if let Err(e) = ArchiveBuilder::new().listfile_option(ListfileOption::Generate).add_file_data(b"seed".to_vec(), "seed.txt").build(&path) {
                        return format!("{{\"oracle\":\"mod_options\",\"error\":{:?}}}", e.to_string());
                    }
                    let data: Vec<u8> = if ci == 1 { (0..len).map(|i| (i % 7) as u8).collect() } else { rng.bytes(len) };
                    let desc = format!("editor add_file_data({} bytes, {:?}) compression={} encrypt={} fix_key={}, close, reopen, read", len, name, if ci == 0 { "none" } else { "zlib" }, enc, fix);
                    {
                        let mut m = match MutableArchive::open(&path) { Ok(m) => m, Err(e) => return format!("{{\"oracle\":\"mod_options\",\"error\":{:?}}}", e.to_string()) };
                        let mut o = AddFileOptions::new().compression(comp);
                        if enc { o = o.encrypt(); }
                        if fix { o = o.fix_key(); }
                        if let Err(_e) = m.add_file_data(&data, name, o) { continue; }   // a refused addition is allowed
                        if let Err(e) = m.flush() { return fail("mod_options", desc, format!("flush Err({})", e), "Ok".into()); }
                    }
                    tried += 1;
                    let mut a = match Archive::open(&path) { Ok(a) => a, Err(e) => return fail("mod_options", desc, format!("reopen Err({})", e), "Ok".into()) };
                    match a.read_file(name) {
                        Ok(got) if got == data => {}
                        Ok(got) => return fail("mod_options", desc, format!("{} different bytes", got.len()), "the added bytes".into()),
                        Err(e) => return fail("mod_options", desc, format!("read_file Err({})", e), "the added bytes".into()),
                    }
                    match a.read_file("seed.txt") { Ok(g) if g == b"seed" => {}, other => return fail("mod_options", desc, format!("untouched seed.txt reads {:?}", other.map(|g| g.len()).map_err(|e| e.to_string())), "4 bytes".into()) }
                }
            }
        }
    }
    none("mod_options", tried)
}

// ---- C02: file keys come from the plain file name (published format: the part after the last path separator) ----------
fn interop_dirs() -> String {
    use wow_mpq::{ArchiveBuilder, ListfileOption};
    let rd32 = |b: &[u8], o: usize| u32::from_le_bytes([b[o], b[o + 1], b[o + 2], b[o + 3]]);
    let dir = tempfile::tempdir().unwrap();
    let path = dir.path().join("d.mpq");
    let files: Vec<(&str, Vec<u8>, bool)> = vec![
        ("staredit\\scenario.chk", (0..64u8).collect(), false), ("a\\b\\deep.dat", (0..48u8).map(|x| x.wrapping_mul(7)).collect(), true), ("top.dat", vec![5u8; 32], true),
    ];
    let mut b = ArchiveBuilder::new().listfile_option(ListfileOption::None);
    for (n, d, fix) in &files { b = b.add_file_data_with_encryption(d.clone(), n, 0, *fix, 0); }
    if let Err(e) = b.build(&path) { return format!("{{\"oracle\":\"interop_dirs\",\"error\":{:?}}}", e.to_string()); }
    let raw = std::fs::read(&path).unwrap();
    let hpos = rd32(&raw, 16) as usize; let bpos = rd32(&raw, 20) as usize; let hn = rd32(&raw, 24) as usize; let bn = rd32(&raw, 28) as usize;
    let words = |o: usize, n: usize| -> Vec<u32> { (0..n * 4).map(|i| rd32(&raw, o + i * 4)).collect() };
    let ht = decrypt(&words(hpos, hn), hash(b"(hash table)", 0x300));
    let bt = decrypt(&words(bpos, bn), hash(b"(block table)", 0x300));
    for (name, data, fix) in &files {
        let nb = name.as_bytes();
        let (a, bb, mut idx) = (hash(nb, 0x100), hash(nb, 0x200), (hash(nb, 0) as usize) & (hn - 1));
        let mut found = None;
        for _ in 0..hn { let e = &ht[idx * 4..idx * 4 + 4]; if e[3] == 0xFFFF_FFFF { break; } if e[0] == a && e[1] == bb && e[3] < 0xFFFF_FFFE { found = Some(e[3] as usize); break; } idx = (idx + 1) & (hn - 1); }
        let bi = match found { Some(i) if i < bn => i, _ => return fail("interop_dirs", format!("independent lookup of {}", name), "not found".into(), "found".into()) };
        let e = &bt[bi * 4..bi * 4 + 4];
        let (pos, csize, fsize) = (e[0] as usize, e[1] as usize, e[2] as usize);
        let plain = match name.rfind(|c| c == '\\' || c == '/') { Some(i) => &name[i + 1..], None => name };
        let base = hash(plain.as_bytes(), 0x300);
        let key = if *fix { base.wrapping_add(pos as u32) ^ (fsize as u32) } else { base };
        let body = &raw[pos..pos + csize];
        let w: Vec<u32> = body[..body.len() / 4 * 4].chunks(4).map(|c| u32::from_le_bytes([c[0], c[1], c[2], c[3]])).collect();
        let dec: Vec<u8> = decrypt(&w, key).iter().flat_map(|x| x.to_le_bytes()).collect();
        if &dec != data {
            return fail("interop_dirs", format!("encrypted file {:?} (fix_key={}) built by ArchiveBuilder, decrypted by an independent reader with the published key: hash of the PLAIN name {:?} (part after the last separator){}", name, fix, plain, if *fix { ", + position ^ size" } else { "" }),
                "different bytes".into(), "the added bytes".into());
        }
    }
    none("interop_dirs", files.len())
}


// ---- C14: MH2O water (bitmap / vertex / attribute combinations per layer) survives build -> serialise -> parse -----------
fn adt_water(seed: u64) -> String {
    use std::io::Cursor;
    use wow_adt::api::ParsedAdt;
    use wow_adt::builder::AdtBuilder;
    use wow_adt::chunks::mh2o::{HeightDepthVertex, Mh2oAttributes, Mh2oChunk, Mh2oEntry, Mh2oHeader, Mh2oInstance, VertexDataArray};
    use wow_adt::{parse_adt, AdtVersion};
    let mut rng = Rng(seed ^ 0x4A20);
    let mut tried = 0;
    for version in [AdtVersion::WotLK, AdtVersion::Cataclysm, AdtVersion::MoP] {
        for round in 0..6u32 {
            let mut entries = vec![Mh2oEntry::default(); 256];
            let mut picked: Vec<usize> = vec![0, 255, 7, 8];
            for _ in 0..3 { picked.push((rng.next() % 256) as usize); }
            picked.sort(); picked.dedup();
            let mut shape = Vec::new();
            for (k, &idx) in picked.iter().enumerate() {
                let c = (rng.next() as u32).wrapping_add(round + k as u32) % 8;
                let (with_bitmap, with_vertices, with_attr) = (c & 1 != 0, c & 2 != 0, c & 4 != 0);
                let (w, h) = (1 + (rng.next() % 4) as u8, 1 + (rng.next() % 4) as u8);
                let vd = if with_vertices {
                    let mut grid: Box<[Option<HeightDepthVertex>; 81]> = Box::new([const { None }; 81]);
                    for z in 0..=(h as usize) { for x in 0..=(w as usize) { grid[z * 9 + x] = Some(HeightDepthVertex { height: 1.0 + (z * 9 + x) as f32, depth: (z * 9 + x) as u8 }); } }
                    Some(VertexDataArray::HeightDepth(grid))
                } else { None };
                entries[idx] = Mh2oEntry {
                    header: Mh2oHeader { offset_instances: 0, layer_count: 1, offset_attributes: 0 },
                    instances: vec![Mh2oInstance { liquid_type: 2 + k as u16, liquid_object_or_lvf: 0, min_height_level: k as f32, max_height_level: k as f32, x_offset: 0, y_offset: 0, width: w, height: h, offset_exists_bitmap: 0, offset_vertex_data: 0 }],
                    vertex_data: vec![vd],
                    exists_bitmaps: vec![if with_bitmap { Some(0x5A ^ (k as u64) << 1) } else { None }],
                    attributes: if with_attr { Some(Mh2oAttributes { fishable: 0x00FF_00FF_00FF_00FF ^ k as u64, deep: 0x0F0F_0F0F_0F0F_0F0F }) } else { None },
                };
                shape.push(format!("#{}: {}x{} bitmap={} vertices={} attributes={}", idx, w, h, with_bitmap, with_vertices, with_attr));
            }
            let src = Mh2oChunk { entries };
            let desc = format!("ADT {:?} with MH2O entries [{}]", version, shape.join("; "));
            tried += 1;
            let s2 = src.clone();
            let r = catch(move || -> Result<Mh2oChunk, String> {
                let bytes = AdtBuilder::new().with_version(version).add_texture("tileset/a.blp").add_water_data(s2).build().map_err(|e| format!("build: {}", e))?.to_bytes().map_err(|e| format!("serialise: {}", e))?;
                match parse_adt(&mut Cursor::new(bytes)).map_err(|e| format!("parse of the serialised bytes: {}", e))? {
                    ParsedAdt::Root(r) => r.water_data.clone().ok_or_else(|| "no MH2O in the parsed tile".to_string()),
                    _ => Err("serialised root tile parsed as another kind".into()),
                }
            });
            let got = match r { Err(p) => return fail("adt_water", desc, format!("panic: {}", p), "round trip".into()), Ok(Err(e)) => return fail("adt_water", desc, e, "round trip".into()), Ok(Ok(g)) => g };
            for &idx in &picked {
                let (a, b) = (&src.entries[idx], &got.entries[idx]);
                if b.instances.len() != a.instances.len() { return fail("adt_water", desc, format!("entry {}: {} layers", idx, b.instances.len()), format!("{}", a.instances.len())); }
                let (ia, ib) = (&a.instances[0], &b.instances[0]);
                if (ib.liquid_type, ib.width, ib.height) != (ia.liquid_type, ia.width, ia.height) || ib.min_height_level != ia.min_height_level {
                    return fail("adt_water", desc, format!("entry {}: layer type/size/level {:?}", idx, (ib.liquid_type, ib.width, ib.height, ib.min_height_level)), format!("{:?}", (ia.liquid_type, ia.width, ia.height, ia.min_height_level)));
                }
                if b.exists_bitmaps != a.exists_bitmaps { return fail("adt_water", desc, format!("entry {}: exists bitmap {:?}", idx, b.exists_bitmaps), format!("{:?}", a.exists_bitmaps)); }
                if b.attributes.map(|x| (x.fishable, x.deep)) != a.attributes.map(|x| (x.fishable, x.deep)) { return fail("adt_water", desc, format!("entry {}: attributes changed", idx), "the written attributes".into()); }
                if b.vertex_data[0].is_some() != a.vertex_data[0].is_some() { return fail("adt_water", desc, format!("entry {}: vertex data presence {}", idx, b.vertex_data[0].is_some()), format!("{}", a.vertex_data[0].is_some())); }
            }
        }
    }
    none("adt_water", tried)
}


// ---- C05: "requesting memory out of proportion to the input size" -------------------------------------------------------
// tiny files whose size / count fields are hostile: the largest single allocation request made while parsing must stay within
// 16 MiB + 64 x input length.  `only` selects one family ("wdt", "wdl", "blp", "dbc", "mpq", "m2", "adt", "wmo"); empty = all.
fn alloc_bound(only: &str) -> String {
    use crate::alloc_track;
    let chunk = |magic: &[u8; 4], size: u32, payload: &[u8]| -> Vec<u8> { let mut v = magic.to_vec(); v.extend_from_slice(&size.to_le_bytes()); v.extend_from_slice(payload); v };
    let mut cases: Vec<(&str, String, Vec<u8>)> = Vec::new();
    // WDT: MVER then a chunk with a hostile size and no payload
    for (m, name) in [(b"OMWM", "MWMO"), (b"FDOM", "MODF"), (b"DIAM", "MAID"), (b"NIAM", "MAIN"), (b"DHPM", "MPHD"), (b"XXXX", "unknown")] {
        for size in [0xFFFF_FF00u32, 0x7FFF_FFC0, 0x1000_0000, 0x4000_0040] {
            let mut f = chunk(b"REVM", 4, &18u32.to_le_bytes());
            f.extend(chunk(m, size, &[1, 2, 3, 4]));
            cases.push(("wdt", format!("WDT: MVER + {} chunk header declaring {:#x} bytes, 4 payload bytes", name, size), f));
        }
    }
    // WDL: MVER then hostile chunk sizes
    for (m, name) in [(b"OMWM", "MWMO"), (b"DIWM", "MWID"), (b"FDOM", "MODF"), (b"FOAM", "MAOF"), (b"ERAM", "MARE"), (b"XXXX", "unknown")] {
        for size in [0xFFFF_FF00u32, 0x7FFF_FFC0, 0x1000_0000] {
            let mut f = chunk(b"REVM", 4, &18u32.to_le_bytes());
            f.extend(chunk(m, size, &[1, 2, 3, 4]));
            cases.push(("wdl", format!("WDL: MVER + {} chunk header declaring {:#x} bytes, 4 payload bytes", name, size), f));
        }
    }
    // BLP2 raw3 / raw1 / dxt with huge dimensions and a small level
    for comp in [1u8, 2, 3] { for (w, h) in [(0x4000u32, 0x4000u32), (0xFFFF, 0xFFFF), (0x10000, 0x1000)] {
        let mut offs = [0u32; 16]; let mut sizes = [0u32; 16]; offs[0] = 1172; sizes[0] = 64;
        let mut v = blp_file(2, 1, 0, w, h, 0, offs, sizes, &vec![7u8; 1024 + 64]);
        v[8] = comp; v[9] = 8; v[10] = 0;
        cases.push(("blp", format!("BLP2 compression {} {}x{} with a 64-byte level 0", comp, w, h), v));
    }}
    // DBC: header declaring huge tables, no data
    for (rc, fc, rs, sb) in [(0xFFFF_FFFFu32, 1u32, 4u32, 0u32), (0x1000_0000, 4, 16, 0), (1, 1, 4, 0xFFFF_FF00), (0, 1, 4, 0x7FFF_FFFF)] {
        let mut v = b"WDBC".to_vec();
        for x in [rc, fc, rs, sb] { v.extend_from_slice(&x.to_le_bytes()); }
        v.extend_from_slice(&[0u8; 8]);
        cases.push(("dbc", format!("DBC header: {} records x {} bytes ({} fields), string block {:#x}; 8 data bytes", rc, rs, fc, sb), v));
    }
    // MPQ: V1 header declaring huge tables
    for (hn, bn) in [(0x1000_0000u32, 1u32), (16, 0x1000_0000), (0x0800_0000, 0x0800_0000)] {
        let mut v = b"MPQ\x1a".to_vec();
        for x in [32u32, 2048] { v.extend_from_slice(&x.to_le_bytes()); }
        v.extend_from_slice(&0u16.to_le_bytes()); v.extend_from_slice(&3u16.to_le_bytes());
        for x in [32u32, 64, hn, bn] { v.extend_from_slice(&x.to_le_bytes()); }
        v.resize(2048, 0);
        cases.push(("mpq", format!("MPQ V1 header: hash table {:#x} entries, block table {:#x} entries, 2048-byte file", hn, bn), v));
    }
    // M2: MD20 header whose every (count, offset) pair declares a huge array at a small offset
    for ver in [256u32, 260, 264, 272] { for cnt in [0x0FFF_FFFFu32, 0xFFFF_FFFF, 0x4000_0000] {
        let mut v = b"MD20".to_vec(); v.extend_from_slice(&ver.to_le_bytes());
        while v.len() < 512 { v.extend_from_slice(&cnt.to_le_bytes()); v.extend_from_slice(&0x40u32.to_le_bytes()); }
        cases.push(("m2", format!("M2 version {}: 512-byte header whose array fields all declare {:#x} elements at offset 0x40", ver, cnt), v));
    }}
    // chunked M2 (MD21 container): an empty MD21 chunk followed by one chunk header with a hostile size
    for m in [b"SFID", b"AFID", b"TXID", b"BFID", b"LDV1", b"EXPT", b"EXP2", b"PABC", b"PADC", b"PSBC", b"PEDC", b"TXAC", b"PGD1", b"DBOC", b"AFRA", b"DPIV", b"WFV1", b"WFV2", b"WFV3", b"EDGF", b"NERF", b"DETL", b"RPID", b"GPID", b"PCOL", b"PFID", b"SKID", b"ZZZZ"] {
        for size in [0xFFFF_FF00u32, 0x4000_0000] {
            let mut f = chunk(b"MD21", 0, &[]);
            f.extend(chunk(m, size, &[1, 2, 3, 4, 5, 6, 7, 8]));
            cases.push(("m2c", format!("chunked M2: empty MD21 + chunk {:?} declaring {:#x} bytes, 8 payload bytes", String::from_utf8_lossy(&m[..]), size), f));
        }
    }
    // ADT / WMO: MVER + one chunk header with a hostile size
    for m in [b"XETM", b"XDMM", b"DIMM", b"OMWM", b"DIWM", b"FDDM", b"FDOM", b"NICM", b"KNCM", b"O2HM", b"RDHM", b"OBFM", b"FXTM"] {
        for size in [0xFFFF_FF00u32, 0x7FFF_FFC0, 0x1000_0000] {
            let mut f = chunk(b"REVM", 4, &18u32.to_le_bytes());
            f.extend(chunk(m, size, &[1, 2, 3, 4, 5, 6, 7, 8]));
            cases.push(("adt", format!("ADT: MVER + chunk {:?} declaring {:#x} bytes, 8 payload bytes", String::from_utf8_lossy(&m.iter().rev().cloned().collect::<Vec<u8>>()), size), f));
        }
    }
    for m in [b"DHOM", b"XTOM", b"TMOM", b"NGOM", b"IGOM", b"BSOM", b"VPOM", b"TPOM", b"RPOM", b"VVOM", b"BVOM", b"TLOM", b"SDOM", b"NDOM", b"DDOM", b"GOFM", b"PGOM", b"YPOM", b"IVOM", b"TVOM", b"RNOM"] {
        for size in [0xFFFF_FF00u32, 0x7FFF_FFC0, 0x1000_0000] {
            let mut f = chunk(b"REVM", 4, &17u32.to_le_bytes());
            f.extend(chunk(m, size, &[1, 2, 3, 4, 5, 6, 7, 8]));
            cases.push(("wmo", format!("WMO: MVER + chunk {:?} declaring {:#x} bytes, 8 payload bytes", String::from_utf8_lossy(&m.iter().rev().cloned().collect::<Vec<u8>>()), size), f));
        }
    }
    // MPQ V4 header (208 bytes) declaring huge HET / BET / hash / block table sizes inside a 4 KiB file
    for (which, name) in [(0usize, "HET"), (1, "BET"), (2, "hash (64-bit size field)"), (3, "block (64-bit size field)"), (4, "hi-block")] {
        for size in [0x7FFF_FFF0u64, 0xFFFF_FF00, 0x0000_0010_0000_0000] {
            let mut v = b"MPQ\x1a".to_vec();
            v.extend_from_slice(&208u32.to_le_bytes()); v.extend_from_slice(&4096u32.to_le_bytes());
            v.extend_from_slice(&3u16.to_le_bytes()); v.extend_from_slice(&3u16.to_le_bytes());
            for x in [0x400u32, 0x500, 16, 4] { v.extend_from_slice(&x.to_le_bytes()); }          // hash pos, block pos, hash entries, block entries
            v.extend_from_slice(&(if which == 4 { 0x600u64 } else { 0 }).to_le_bytes());             // hi-block table pos
            v.extend_from_slice(&0u16.to_le_bytes()); v.extend_from_slice(&0u16.to_le_bytes());      // pos high parts
            v.extend_from_slice(&4096u64.to_le_bytes());                                            // archive size 64
            v.extend_from_slice(&(if which == 1 { 0x700u64 } else { 0 }).to_le_bytes());             // BET pos
            v.extend_from_slice(&(if which == 0 { 0x800u64 } else { 0 }).to_le_bytes());             // HET pos
            let sizes: [u64; 5] = [if which == 2 { size } else { 256 }, if which == 3 { size } else { 64 }, if which == 4 { size } else { 0 }, if which == 0 { size } else { 0 }, if which == 1 { size } else { 0 }];
            for x in sizes { v.extend_from_slice(&x.to_le_bytes()); }                               // hash, block, hi-block, HET, BET sizes
            v.extend_from_slice(&0u32.to_le_bytes());                                               // raw chunk size
            v.resize(208, 0);
            v.resize(4096, 0x5A);
            cases.push(("mpq", format!("MPQ V4 header declaring a {} table of {:#x} bytes in a 4096-byte file", name, size), v));
        }
    }
    let mut tried = 0;
    for (fam, desc, bytes) in cases {
        if !only.is_empty() && only != fam { continue; }
        tried += 1;
        let b2 = bytes.clone();
        alloc_track::reset();
        let r = catch(move || {
            match fam {
                "wdt" => { let _ = wow_wdt::WdtReader::new(std::io::Cursor::new(b2), wow_wdt::version::WowVersion::WotLK).read().is_ok(); }
                "wdl" => { let _ = wow_wdl::parser::WdlParser::new().parse(&mut std::io::Cursor::new(b2)).is_ok(); }
                "blp" => { let _ = wow_blp::parser::parse_blp(&b2).is_ok(); }
                "m2" | "m2c" => { let _ = wow_m2::parse_m2(&mut std::io::Cursor::new(b2)).is_ok(); }
                "adt" => { let _ = wow_adt::parse_adt(&mut std::io::Cursor::new(b2)).is_ok(); }
                "wmo" => { let _ = wow_wmo::parse_wmo(&mut std::io::Cursor::new(b2.clone())).is_ok(); let _ = wow_wmo::WmoParser::new().parse_root(&mut std::io::Cursor::new(b2)).is_ok(); }
                "dbc" => {
                    use wow_cdbc::{DbcParser, FieldType, Schema, SchemaField};
                    let mut sc = Schema::new("t"); sc.add_field(SchemaField::new("a", FieldType::UInt32));
                    let _ = DbcParser::parse_bytes(&b2).and_then(|p| p.with_schema(sc)).and_then(|p| p.parse_records()).is_ok();
                }
                _ => {
                    let dir = tempfile::tempdir().unwrap(); let p = dir.path().join("h.mpq"); std::fs::write(&p, &b2).unwrap();
                    if let Ok(mut a) = wow_mpq::Archive::open(&p) { let _ = a.list().is_ok(); let _ = a.read_file("x").is_ok(); }
                }
            }
        });
        let peak = alloc_track::max();
        let bound = (16usize << 20) + 64 * bytes.len();
        if let Err(p) = r { if !p.contains("capacity overflow") && !p.contains("alloc") { return fail("alloc_bound", format!("{} ({} bytes)", desc, bytes.len()), format!("panic: {}", p), "Ok or Err".into()); } }
        if peak > bound {
            return fail("alloc_bound", format!("{} ({} bytes)", desc, bytes.len()), format!("a single allocation of {} bytes was requested", peak), format!("at most {} bytes (16 MiB + 64 x input length)", bound));
        }
    }
    none("alloc_bound", tried)
}


// ---- C13: whole-model write -> parse with bone key-frame blocks that are shared between bones or private --------------------
fn m2_model(seed: u64) -> String {
    use std::io::Cursor;
    use wow_m2::chunks::bone::M2Bone;
    use wow_m2::chunks::vertex::M2Vertex;
    use wow_m2::common::{C2Vector, C3Vector, M2Array};
    use wow_m2::header::M2Header;
    use wow_m2::model::{BoneAnimationRaw, TrackType};
    use wow_m2::{M2Model, M2Version};
    let mut rng = Rng(seed ^ 0x3D2);
    let mut tried = 0;
    for round in 0..12u32 {
        let nb = 1 + (rng.next() % 4) as usize;
        let mut model = M2Model::default();
        model.header = M2Header::new(M2Version::Vanilla);
        model.name = Some(format!("Model{}", round));
        let mut shape = Vec::new();
        for i in 0..nb {
            // bones 1.. share bone 0's timestamp block with probability 1/2
            let shared = i > 0 && rng.next() % 2 == 0;
            let ts_ofs = if shared { 0x1000 } else { 0x1000 + 0x100 * i as u32 };
            let v_ofs = 0x4000 + 0x100 * i as u32;
            let mut bone = M2Bone::new(i as i32, i as i16 - 1);
            bone.translation.ranges = Some(M2Array::new(0, 0));
            bone.translation.timestamps = M2Array::new(2, ts_ofs);
            bone.translation.values = M2Array::new(2, v_ofs);
            bone.pivot = C3Vector { x: i as f32, y: 0.5, z: -0.5 };
            model.bones.push(bone);
            let ts: Vec<u8> = if shared { [0u32, 1000] } else { [0u32, 500 + i as u32] }.iter().flat_map(|x| x.to_le_bytes()).collect();
            let vals: Vec<u8> = (0..6).map(|k| (i * 10 + k) as f32).flat_map(|x| x.to_le_bytes()).collect();
            model.raw_data.bone_animation_data.push(BoneAnimationRaw { bone_index: i, track_type: TrackType::Translation, timestamps: if shared || i == 0 { [0u32, 1000].iter().flat_map(|x| x.to_le_bytes()).collect() } else { ts },
                values: vals, ranges: None, original_timestamps_offset: if i == 0 { 0x1000 } else { ts_ofs }, original_values_offset: v_ofs, original_ranges_offset: None });
            shape.push(if shared { "shared" } else { "own" });
        }
        model.key_bone_lookup = (0..nb as u16).chain([0xFFFF]).collect();
        for i in 0..3 { model.vertices.push(M2Vertex { position: C3Vector { x: 10.0 + i as f32, y: 20.0, z: 30.0 }, bone_weights: [200, 55, 0, 0], bone_indices: [0, 0, 0, 0], normal: C3Vector { x: 0.0, y: 0.0, z: 1.0 }, tex_coords: C2Vector { x: 0.25, y: 0.75 }, tex_coords2: Some(C2Vector { x: 0.5, y: 0.125 }) }); }
        let desc = format!("Vanilla model, {} bones, timestamp blocks {:?}, key-bone lookup of {}, 3 vertices", nb, shape, nb + 1);
        tried += 1;
        let m2 = model.clone();
        let r = catch(move || -> Result<(), String> {
            let mut buf = Cursor::new(Vec::new());
            m2.write(&mut buf).map_err(|e| format!("write: {}", e))?;
            let bytes = buf.into_inner();
            let parsed = M2Model::parse(&mut Cursor::new(bytes.clone())).map_err(|e| format!("parse of the written bytes: {}", e))?;
            if parsed.name != m2.name { return Err(format!("name {:?}", parsed.name)); }
            if parsed.bones.len() != m2.bones.len() { return Err(format!("{} bones", parsed.bones.len())); }
            if parsed.key_bone_lookup != m2.key_bone_lookup { return Err(format!("key-bone lookup {:?} instead of {:?}", parsed.key_bone_lookup, m2.key_bone_lookup)); }
            if parsed.vertices.len() != m2.vertices.len() { return Err(format!("{} vertices", parsed.vertices.len())); }
            for (a, b) in m2.vertices.iter().zip(parsed.vertices.iter()) { if a.position != b.position || a.bone_weights != b.bone_weights || a.tex_coords != b.tex_coords { return Err("vertex content changed".into()); } }
            for (a, b) in m2.bones.iter().zip(parsed.bones.iter()) { if a.pivot != b.pivot || a.bone_id != b.bone_id || a.translation.timestamps.count != b.translation.timestamps.count { return Err("bone content changed".into()); } }
            let mut buf2 = Cursor::new(Vec::new());
            parsed.write(&mut buf2).map_err(|e| format!("second write: {}", e))?;
            if buf2.into_inner() != bytes { return Err("second write is not byte-identical".into()); }
            Ok(())
        });
        match r {
            Err(p) => return fail("m2_model", desc, format!("panic: {}", p), "round trip".into()),
            Ok(Err(e)) => return fail("m2_model", desc, e, "write -> parse same content, second write byte-identical".into()),
            Ok(Ok(())) => {}
        }
    }
    none("m2_model", tried)
}
