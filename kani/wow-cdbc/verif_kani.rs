//! Kani harnesses for wow-cdbc (copied into the scratch copy as src/verif_kani.rs by /verif/check).
#![allow(unused_imports, dead_code)]
use crate::*;
use crate::header::DBC_MAGIC;
use std::io::Cursor;
use std::io::Write;
use std::io::Read;
use std::io::{Seek, SeekFrom};

pub fn stub_format(_args: core::fmt::Arguments<'_>) -> String {
    String::new()
}

/// assumed contract of std::collections::HashMap<u32, usize> as used by the key map: with_capacity, insert
/// (later insert of the same key overwrites), get.  CBMC cannot carry the real SipHash table.
pub struct ProxyMap {
    pub items: Vec<(Key, usize)>,
}
impl ProxyMap {
    pub fn with_capacity(_n: usize) -> Self {
        ProxyMap { items: Vec::new() }
    }
    pub fn insert(&mut self, k: Key, v: usize) -> Option<usize> {
        let mut i = 0;
        while i < self.items.len() {
            if self.items[i].0 == k {
                let old = self.items[i].1;
                self.items[i].1 = v;
                return Some(old);
            }
            i += 1;
        }
        self.items.push((k, v));
        None
    }
    pub fn get(&self, k: &Key) -> Option<&usize> {
        let mut i = 0;
        while i < self.items.len() {
            if self.items[i].0 == *k {
                return Some(&self.items[i].1);
            }
            i += 1;
        }
        None
    }
}
include!("verif_blocks.rs");

// ------------------------------------------------------------------------------------ U17.1 header
// @harness unit=U17.1 props=C17,C05 kind=complete timeout=300 target="header.rs: DbcHeader::string_block_offset, total_size" oracle=dbc_header
#[kani::proof]
#[kani::unwind(4)]
#[kani::stub(alloc::fmt::format, stub_format)]
fn u17_1_header_size_law() {
    let h = DbcHeader { magic: DBC_MAGIC, record_count: kani::any(), field_count: kani::any(), record_size: kani::any(), string_block_size: kani::any() };
    let off = h.string_block_offset();
    let tot = h.total_size();
    // written size = header + records x record size + string block, in 64-bit arithmetic (no overflow for any u32 fields)
    assert!(off == 20u64 + (h.record_count as u64) * (h.record_size as u64), "string block offset law");
    assert!(tot == off + h.string_block_size as u64, "total size law");
}

// @harness unit=U17.1 props=C17,C05 kind=complete timeout=600 target="header.rs: DbcHeader::parse" oracle=dbc_header
#[kani::proof]
#[kani::unwind(22)]
#[kani::stub(alloc::fmt::format, stub_format)]
fn u17_1_header_parse() {
    let buf: [u8; 24] = kani::any();
    let len: usize = kani::any();
    kani::assume(len <= 24);
    let mut c = Cursor::new(&buf[..len]);
    match DbcHeader::parse(&mut c) {
        Ok(h) => {
            assert!(len >= 20 && buf[0] == b'W' && buf[1] == b'D' && buf[2] == b'B' && buf[3] == b'C');
            assert!(h.record_count == u32::from_le_bytes([buf[4], buf[5], buf[6], buf[7]]));
            assert!(h.field_count == u32::from_le_bytes([buf[8], buf[9], buf[10], buf[11]]));
            assert!(h.record_size == u32::from_le_bytes([buf[12], buf[13], buf[14], buf[15]]));
            assert!(h.string_block_size == u32::from_le_bytes([buf[16], buf[17], buf[18], buf[19]]));
            assert!(!(h.record_count > 0 && (h.record_size == 0 || h.field_count == 0)));
        }
        Err(e) => {
            core::mem::forget(e);
            // every header a writer can produce is accepted: 20 bytes, the magic, and either no records or
            // at least one field with at least one byte per field (record_size >= field_count >= 1)
            let rc = u32::from_le_bytes([buf[4], buf[5], buf[6], buf[7]]);
            let fc = u32::from_le_bytes([buf[8], buf[9], buf[10], buf[11]]);
            let rs = u32::from_le_bytes([buf[12], buf[13], buf[14], buf[15]]);
            let writable = len >= 20 && buf[0] == b'W' && buf[1] == b'D' && buf[2] == b'B' && buf[3] == b'C' && (rc == 0 || (fc >= 1 && rs >= fc));
            assert!(!writable, "a header with consistent counts is accepted");
        }
    }
}

// ------------------------------------------------------------------------------------ U17.2 record size
fn any_field_type() -> FieldType {
    let k: u8 = kani::any();
    match k % 9 {
        0 => FieldType::Int32,
        1 => FieldType::UInt32,
        2 => FieldType::Float32,
        3 => FieldType::String,
        4 => FieldType::Bool,
        5 => FieldType::UInt8,
        6 => FieldType::Int8,
        7 => FieldType::UInt16,
        _ => FieldType::Int16,
    }
}
fn width(t: FieldType) -> usize {
    match t {
        FieldType::UInt8 | FieldType::Int8 => 1,
        FieldType::UInt16 | FieldType::Int16 => 2,
        _ => 4,
    }
}

// @harness unit=U17.2 props=C17 kind=bounded bound="<= 4 fields, array lengths <= 3" timeout=600 target="schema.rs: FieldType::size, SchemaField::size, Schema::record_size" oracle=dbc_header
#[kani::proof]
#[kani::unwind(7)]
#[kani::stub(alloc::fmt::format, stub_format)]
fn u17_2_record_size_is_packed_sum() {
    let n: usize = kani::any();
    kani::assume(n <= 4);
    let mut schema = Schema::new(String::new());
    let mut want = 0usize;
    let mut i = 0;
    while i < n {
        let t = any_field_type();
        let arr: usize = kani::any();
        kani::assume(arr <= 3);
        if kani::any() {
            schema.add_field(SchemaField::new_array(String::new(), t, arr));
            want += width(t) * arr;
        } else {
            schema.add_field(SchemaField::new(String::new(), t));
            want += width(t);
        }
        i += 1;
    }
    assert!(schema.record_size() == want, "record size is the packed sum of field widths");
    core::mem::forget(schema);
}

// ------------------------------------------------------------------------------------ U17.4 key map (E11 block)
// @harness unit=U17.4 props=C17 kind=bounded bound="3 keyed records, every order, duplicate keys allowed" timeout=900 target="parser.rs: create_sorted_key_map map construction (E11 block; HashMap replaced by an assoc-list contract)" oracle=dbc_keys
#[kani::proof]
#[kani::unwind(6)]
#[kani::stub(alloc::fmt::format, stub_format)]
fn u17_4_key_map_points_at_records_with_that_key() {
    let keys: [Key; 3] = kani::any();
    // the (key, record index) pairs in one of the 6 orders (create_sorted_key_map sorts them by key first)
    let which: u8 = kani::any();
    let perm: [usize; 3] = match which % 6 {
        0 => [0, 1, 2],
        1 => [0, 2, 1],
        2 => [1, 0, 2],
        3 => [1, 2, 0],
        4 => [2, 0, 1],
        _ => [2, 1, 0],
    };
    let v: Vec<(Key, usize)> = vec![(keys[perm[0]], perm[0]), (keys[perm[1]], perm[1]), (keys[perm[2]], perm[2])];
    let map = blk_key_map_build(v);
    let mut i = 0;
    while i < 3 {
        match map.get(&keys[i]) {
            Some(idx) => assert!(*idx < 3 && keys[*idx] == keys[i], "hashed lookup returns a record carrying that key"),
            None => assert!(false, "every key is present"),
        }
        i += 1;
    }
}


// ------------------------------------------------------------------------------------ U17.6 value writer
// E11 block: the `match (value, field_type)` statement of DbcWriter::write_value.  `self` becomes a proxy holding a
// fixed slice sink; the record set / string-offset map (only touched by the StringRef arm, not exercised here) are
// proxies; the Array arm's recursive call is unreachable for the scalar values the harness passes.
pub struct WvProxy<'a> { pub writer: &'a mut [u8] }
impl<'a> WvProxy<'a> {
    fn write_value(&mut self, _v: &Value, _t: FieldType, _r: &RsProxy, _s: &SoProxy) -> Result<()> { unreachable!() }
}
pub struct RsProxy;
impl RsProxy { fn get_string(&self, _r: StringRef) -> Result<&str> { Ok("") } }
pub struct SoProxy;
impl SoProxy { fn get(&self, _k: &str) -> Option<&u32> { None } }

fn write_then_parse(v: &Value, t: FieldType, width: usize) -> core::mem::ManuallyDrop<Value> {
    let mut buf = [0xAAu8; 8];
    let left;
    {
        let mut p = WvProxy { writer: &mut buf[..] };
        let r = blk_write_value(&mut p, v, t, &RsProxy, &SoProxy);
        assert!(r.is_ok(), "a value of the field's type is written");
        core::mem::forget(r);
        left = p.writer.len();
    }
    assert!(left == 8 - width, "exactly the field width is written");
    let mut src: &[u8] = &buf[..width];
    let back = crate::field_parser::parse_field_value(&mut src, t);
    assert!(back.is_ok(), "the written field parses");
    match back { Ok(v) => core::mem::ManuallyDrop::new(v), Err(e) => { core::mem::forget(e); unreachable!() } }
}

// every scalar field type: parse_field_value(write_value(v)) == v, and exactly size(type) bytes are written
// @harness unit=U17.6 props=C17 kind=complete timeout=600 target="writer.rs: DbcWriter::write_value (scalar arms, E11 block), field_parser.rs: parse_field_value" oracle=dbc_writer
#[kani::proof]
#[kani::unwind(10)]
#[kani::stub(alloc::fmt::format, stub_format)]
fn u17_6_value_codec_ints() {
    let a: i32 = kani::any();
    assert!(matches!(*write_then_parse(&*core::mem::ManuallyDrop::new(Value::Int32(a)), FieldType::Int32, 4), Value::Int32(x) if x == a), "Int32 survives");
    let b: u32 = kani::any();
    assert!(matches!(*write_then_parse(&*core::mem::ManuallyDrop::new(Value::UInt32(b)), FieldType::UInt32, 4), Value::UInt32(x) if x == b), "UInt32 survives");
    let c: bool = kani::any();
    assert!(matches!(*write_then_parse(&*core::mem::ManuallyDrop::new(Value::Bool(c)), FieldType::Bool, 4), Value::Bool(x) if x == c), "Bool survives");
}

// @harness unit=U17.6 props=C17 kind=complete timeout=600 target="writer.rs: DbcWriter::write_value (scalar arms, E11 block), field_parser.rs: parse_field_value" oracle=dbc_writer
#[kani::proof]
#[kani::unwind(10)]
#[kani::stub(alloc::fmt::format, stub_format)]
fn u17_6_value_codec_small() {
    let a: u8 = kani::any();
    assert!(matches!(*write_then_parse(&*core::mem::ManuallyDrop::new(Value::UInt8(a)), FieldType::UInt8, 1), Value::UInt8(x) if x == a), "UInt8 survives");
    let b: i8 = kani::any();
    assert!(matches!(*write_then_parse(&*core::mem::ManuallyDrop::new(Value::Int8(b)), FieldType::Int8, 1), Value::Int8(x) if x == b), "Int8 survives");
    let c: u16 = kani::any();
    assert!(matches!(*write_then_parse(&*core::mem::ManuallyDrop::new(Value::UInt16(c)), FieldType::UInt16, 2), Value::UInt16(x) if x == c), "UInt16 survives");
    let d: i16 = kani::any();
    assert!(matches!(*write_then_parse(&*core::mem::ManuallyDrop::new(Value::Int16(d)), FieldType::Int16, 2), Value::Int16(x) if x == d), "Int16 survives");
    let e: f32 = kani::any();
    assert!(matches!(*write_then_parse(&*core::mem::ManuallyDrop::new(Value::Float32(e)), FieldType::Float32, 4), Value::Float32(x) if x.to_bits() == e.to_bits()), "Float32 bits survive");
}

// ------------------------------------------------------------------------------------ U17.7 record addressing / array fields
/// stand-in for `self` in the record-position statement of LazyDbcParser::get_record (reads self.header only)
pub struct HdrRef<'a> { pub header: &'a DbcHeader }
/// stand-in for `self` in the per-field statement of DbcParser::parse_record_with_schema: parse_field_value delegates to
/// crate::field_parser::parse_field_value exactly like the real method
pub struct PfvProxy;
impl PfvProxy {
    fn parse_field_value(&self, cursor: &mut Cursor<&[u8]>, t: FieldType) -> Result<Value> { crate::field_parser::parse_field_value(cursor, t) }
}

// every access path addresses record i at 20 + i * record_size (64-bit, no overflow) - the lazy and the parallel path
// @harness unit=U17.7 props=C17 kind=complete timeout=120 target="lazy.rs: LazyDbcParser::get_record position statement; parallel.rs: parse_records_parallel position statement (E11 blocks)" oracle=dbc_paths
#[kani::proof]
#[kani::unwind(4)]
#[kani::stub(alloc::fmt::format, stub_format)]
fn u17_7_record_position_law() {
    let h = DbcHeader { magic: DBC_MAGIC, record_count: kani::any(), field_count: kani::any(), record_size: kani::any(), string_block_size: kani::any() };
    let i: u32 = kani::any();
    let want = 20u64 + (i as u64) * (h.record_size as u64);
    assert!(blk_lazy_record_pos(&HdrRef { header: &h }, i) == want, "lazy path: record i starts at 20 + i * record_size");
    assert!(blk_parallel_record_pos(&h, i as usize) == want, "parallel path: record i starts at 20 + i * record_size");
}

// an array field of n elements of any width is decoded as n consecutive elements of that width, in order
fn array_field_decode(t: FieldType, w: usize) {
    let bytes: [u8; 8] = kani::any();
    let field = core::mem::ManuallyDrop::new(SchemaField { name: String::new(), field_type: t, is_array: true, array_size: Some(2) });
    let mut c = Cursor::new(&bytes[..]);
    let v = match blk_parse_field_or_array(&PfvProxy, &mut c, &field) {
        Ok(v) => core::mem::ManuallyDrop::new(v),
        Err(e) => { core::mem::forget(e); assert!(false, "8 bytes hold two elements of any width"); return; }
    };
    assert!(c.position() as usize == 2 * w, "the array consumes n * width bytes");
    match &*v {
        Value::Array(items) => {
            assert!(items.len() == 2, "both elements are decoded");
            let ok0 = match (&items[0], w) { (Value::UInt8(x), 1) => *x == bytes[0], (Value::UInt16(x), 2) => *x == u16::from_le_bytes([bytes[0], bytes[1]]),
                (Value::UInt32(x), 4) => *x == u32::from_le_bytes([bytes[0], bytes[1], bytes[2], bytes[3]]), _ => false };
            let ok1 = match (&items[1], w) { (Value::UInt8(x), 1) => *x == bytes[1], (Value::UInt16(x), 2) => *x == u16::from_le_bytes([bytes[2], bytes[3]]),
                (Value::UInt32(x), 4) => *x == u32::from_le_bytes([bytes[4], bytes[5], bytes[6], bytes[7]]), _ => false };
            assert!(ok0 && ok1, "element k is the k-th little-endian word of the element width");
        }
        _ => assert!(false, "an array field yields Value::Array"),
    }
}

// one harness per element width (a symbolic element type exhausts the time limit)
// @harness unit=U17.7 props=C17 kind=bounded bound="array of 2 u8 elements; every byte value" timeout=600 target="parser.rs: DbcParser::parse_record_with_schema per-field statement (E11 block)" oracle=dbc_paths
#[kani::proof]
#[kani::unwind(8)]
#[kani::stub(alloc::fmt::format, stub_format)]
fn u17_7_array_field_decode_u8() { array_field_decode(FieldType::UInt8, 1); }

// @harness unit=U17.7 props=C17 kind=bounded bound="array of 2 u16 elements; every byte value" timeout=600 target="parser.rs: DbcParser::parse_record_with_schema per-field statement (E11 block)" oracle=dbc_paths
#[kani::proof]
#[kani::unwind(8)]
#[kani::stub(alloc::fmt::format, stub_format)]
fn u17_7_array_field_decode_u16() { array_field_decode(FieldType::UInt16, 2); }

// @harness unit=U17.7 props=C17 kind=bounded bound="array of 2 u32 elements; every byte value" timeout=600 target="parser.rs: DbcParser::parse_record_with_schema per-field statement (E11 block)" oracle=dbc_paths
#[kani::proof]
#[kani::unwind(8)]
#[kani::stub(alloc::fmt::format, stub_format)]
fn u17_7_array_field_decode_u32() { array_field_decode(FieldType::UInt32, 4); }


// header emission of DbcWriter::write_records (E11 block; the four measured quantities are parameters): the 20 header bytes
// are magic, record count, field count, record size, string block size, little-endian at +0/+4/+8/+12/+16, written from
// position 0 - the layout DbcHeader::parse reads (u17_1_header_parse), so the parsed header reports the written sizes and the
// size law header + records * record size + string block holds for the file the writer lays out
// @harness unit=U17.8 props=C17 kind=complete timeout=300 target="writer.rs: DbcWriter::write_records header statements (E11 block), all counts below 2^32" oracle=dbc_writer
#[kani::proof]
#[kani::unwind(24)]
#[kani::stub(alloc::fmt::format, stub_format)]
fn u17_8_write_header_layout() {
    let (nr, nf, rs, sb): (usize, usize, usize, usize) = (kani::any(), kani::any(), kani::any(), kani::any());
    kani::assume(nr <= u32::MAX as usize && nf <= u32::MAX as usize && rs <= u32::MAX as usize && sb <= u32::MAX as usize);
    let mut buf = [0xAAu8; 24];
    let start: u64 = kani::any();
    kani::assume(start <= 4);
    let pos = {
        let mut c = Cursor::new(&mut buf[..]);
        c.set_position(start);   // wherever the sink stood, the header goes to offset 0
        match blk_write_header(&mut c, nr, nf, rs, sb) { Ok(()) => c.position(), Err(e) => { core::mem::forget(e); assert!(false, "writing 20 bytes into a 24-byte sink succeeds"); return; } }
    };
    assert!(pos == 20, "exactly 20 header bytes, starting at offset 0");
    assert!(buf[0] == DBC_MAGIC[0] && buf[1] == DBC_MAGIC[1] && buf[2] == DBC_MAGIC[2] && buf[3] == DBC_MAGIC[3], "magic first");
    let i: usize = kani::any();
    kani::assume(i < 4);
    assert!(buf[4 + i] == (nr as u32).to_le_bytes()[i], "record count at +4");
    assert!(buf[8 + i] == (nf as u32).to_le_bytes()[i], "field count at +8");
    assert!(buf[12 + i] == (rs as u32).to_le_bytes()[i], "record size at +12");
    assert!(buf[16 + i] == (sb as u32).to_le_bytes()[i], "string block size at +16");
    assert!(buf[20 + i] == 0xAA, "nothing beyond the header");
}


// binary-searched key lookup: the order create_sorted_key_map sorts by is the order get_record_by_key_binary_search searches by,
// so every stored key is found at a position carrying that key (keys on both sides of 2^31 included)
// @harness unit=U17.9 props=C17 kind=bounded bound="3 keyed records, every u32 key value, every order, duplicates allowed" timeout=900 target="parser.rs: create_sorted_key_map sort statement + get_record_by_key_binary_search search statement (E11 blocks)" oracle=dbc_keys
#[kani::proof]
#[kani::unwind(6)]
#[kani::stub(alloc::fmt::format, stub_format)]
fn u17_9_sorted_lookup_finds_every_key() {
    let k: [u32; 3] = kani::any();
    let v: Vec<(Key, usize)> = vec![(k[0], 0), (k[1], 1), (k[2], 2)];
    let sorted = blk_key_sort(v);
    assert!(sorted.len() == 3, "sorting keeps every entry");
    let j: usize = kani::any();
    kani::assume(j < 3);
    match blk_key_binary_search(&sorted, k[j]) {
        Ok(pos) => { assert!(pos < 3 && sorted[pos].0 == k[j], "the position found carries the key");
                     assert!(sorted[pos].1 < 3 && k[sorted[pos].1] == k[j], "and refers to a record with that key"); }
        Err(_) => assert!(false, "a stored key is found"),
    }
}
