//! Harnesses inside wow-adt builder::serializer (private offset/flag calculators).
use super::*;

pub fn stub_format(_args: core::fmt::Arguments<'_>) -> String {
    String::new()
}

fn any_positions() -> ChunkPositions {
    let base: u64 = kani::any();
    // positions are absolute file offsets recorded after the MHDR payload start (serialize_to_writer writes MHDR
    // first); 0 encodes "chunk absent".  Files are far below 4 GiB.
    kani::assume(base >= 8 && base < (1 << 31));
    let pos = |present: bool| -> u64 {
        if present {
            let p: u64 = kani::any();
            kani::assume(p >= base && p < (1 << 32));
            p
        } else {
            0
        }
    };
    let opt = |present: bool| -> Option<u64> {
        if present {
            let p: u64 = kani::any();
            kani::assume(p >= base && p < (1 << 32));
            Some(p)
        } else {
            None
        }
    };
    let mcin: u64 = kani::any();
    kani::assume(mcin >= base + 8 && mcin < (1 << 32));
    ChunkPositions {
        mhdr_data_start: base,
        mcin_data_start: mcin,
        mtex: pos(kani::any()),
        mmdx: pos(kani::any()),
        mmid: pos(kani::any()),
        mwmo: pos(kani::any()),
        mwid: pos(kani::any()),
        mddf: pos(kani::any()),
        modf: pos(kani::any()),
        mfbo: opt(kani::any()),
        mh2o: opt(kani::any()),
        mtxf: opt(kani::any()),
        mamp: None,
        mtxp: None,
        mbmh: None,
        mbbb: None,
        mbnv: None,
        mbmi: None,
        mcnk_start: 0,
        mcnk_entries: Vec::new(),
    }
}

// every MHDR offset-table entry is the distance from the MHDR payload start to the named chunk (0 = absent),
// and the flag bits say exactly which optional chunks exist
// @harness unit=U14.2 props=C14 kind=complete timeout=600 target="builder/serializer.rs: calculate_mhdr_offsets, calculate_mhdr_flags (every position value below 4 GiB)" oracle=adt_offsets
#[kani::proof]
#[kani::unwind(4)]
#[kani::stub(alloc::fmt::format, stub_format)]
fn u14_2_mhdr_offsets_point_at_their_chunks() {
    let p = any_positions();
    let h = calculate_mhdr_offsets(&p);
    let base = p.mhdr_data_start;
    let rel = |pos: u64| -> u32 { if pos == 0 { 0 } else { (pos - base) as u32 } };
    assert!(h.mcin_offset as u64 + base == p.mcin_data_start - 8, "MCIN entry points at the MCIN chunk header");
    assert!(h.mtex_offset == rel(p.mtex) && h.mmdx_offset == rel(p.mmdx) && h.mmid_offset == rel(p.mmid), "MTEX/MMDX/MMID entries");
    assert!(h.mwmo_offset == rel(p.mwmo) && h.mwid_offset == rel(p.mwid) && h.mddf_offset == rel(p.mddf) && h.modf_offset == rel(p.modf), "MWMO/MWID/MDDF/MODF entries");
    assert!(h.mfbo_offset == p.mfbo.map_or(0, rel) && h.mh2o_offset == p.mh2o.map_or(0, rel) && h.mtxf_offset == p.mtxf.map_or(0, rel), "optional chunk entries (0 when absent)");
    assert!((h.flags & 0x01 != 0) == p.mfbo.is_some() && (h.flags & 0x02 != 0) == p.mh2o.is_some() && h.flags & !0x03 == 0, "flag bit <=> optional chunk present");
    assert!(h.unused1 == 0 && h.unused2 == 0 && h.unused3 == 0 && h.unused4 == 0);
    core::mem::forget(p);
}


// ------------------------------------------------------------------------------------ U14.3 MCNK header reset
include!("../verif_blocks_serializer.rs");

/// header-only stand-in for McnkChunk in the header-reset block of write_mcnk_chunk (the block reads .header only)
pub struct HdrOnly {
    pub header: McnkHeader,
}

fn any_mcnk_header() -> McnkHeader {
    McnkHeader {
        flags: McnkFlags { value: kani::any() }, index_x: kani::any(), index_y: kani::any(), n_layers: kani::any(), n_doodad_refs: kani::any(),
        multipurpose_field: kani::any(), ofs_layer: kani::any(), ofs_refs: kani::any(), ofs_alpha: kani::any(), size_alpha: kani::any(),
        ofs_shadow: kani::any(), size_shadow: kani::any(), area_id: kani::any(), n_map_obj_refs: kani::any(), holes_low_res: kani::any(),
        unknown_but_used: kani::any(), pred_tex: kani::any(), no_effect_doodad: kani::any(), unknown_8bytes: kani::any(),
        ofs_snd_emitters: kani::any(), n_snd_emitters: kani::any(), ofs_liquid: kani::any(), size_liquid: kani::any(),
        position: [0.0, 0.0, 0.0], ofs_mccv: kani::any(), ofs_mclv: kani::any(), unused: kani::any(), _padding: kani::any(),
    }
}

// Every sub-chunk offset / size / count of the header that is about to be back-patched starts at zero, whatever the
// caller's header carried (so an absent sub-chunk can never be pointed at by a stale offset); the identifying fields
// are taken over unchanged.  Loop-free over every header value.
// @harness unit=U14.3 props=C14 kind=complete timeout=300 target="builder/serializer.rs: write_mcnk_chunk header reset block (E11)" oracle=adt_offsets
#[kani::proof]
#[kani::unwind(10)]
#[kani::stub(alloc::fmt::format, stub_format)]
fn u14_3_mcnk_header_reset() {
    let src = HdrOnly { header: any_mcnk_header() };
    let h = blk_mcnk_header_reset(&src);
    assert!(h.ofs_layer == 0 && h.n_layers == 0 && h.ofs_refs == 0, "layer / refs start cleared");
    assert!(h.ofs_alpha == 0 && h.size_alpha == 0 && h.ofs_shadow == 0 && h.size_shadow == 0, "alpha / shadow start cleared");
    assert!(h.ofs_liquid == 0 && h.size_liquid == 0, "liquid starts cleared");
    assert!(h.ofs_mccv == 0 && h.ofs_mclv == 0, "vertex colour / lighting offsets start cleared");
    assert!(h.ofs_snd_emitters == 0 && h.n_snd_emitters == 0, "sound emitters start cleared");
    let i: usize = kani::any();
    kani::assume(i < 8);
    assert!(h.multipurpose_field[i] == 0, "height / normal offsets start cleared");
    assert!(h.flags.value == src.header.flags.value && h.index_x == src.header.index_x && h.index_y == src.header.index_y, "identity fields are kept");
    assert!(h.area_id == src.header.area_id && h.holes_low_res == src.header.holes_low_res && h.n_doodad_refs == src.header.n_doodad_refs && h.n_map_obj_refs == src.header.n_map_obj_refs, "content fields are kept");
}

// ------------------------------------------------------------------------------------ U14.5 MCCV sub-chunk emission
// the vertex colours of a terrain chunk are framed as MCCV with size 4 * n and stored B,G,R,A per vertex (the order the
// binrw reader of VertexColor uses), so colours survive write -> parse and a second round changes nothing
// @harness unit=U14.5 props=C14 kind=bounded bound="2 vertex colours; every channel value" timeout=600 target="builder/serializer.rs: write_mcnk_chunk MCCV emission statements (E11 block)" oracle=adt_offsets
#[kani::proof]
#[kani::unwind(6)]
#[kani::stub(alloc::fmt::format, stub_format)]
fn u14_5_mccv_emission_layout() {
    use crate::chunks::mcnk::VertexColor;
    let c0 = VertexColor { b: kani::any(), g: kani::any(), r: kani::any(), a: kani::any() };
    let c1 = VertexColor { b: kani::any(), g: kani::any(), r: kani::any(), a: kani::any() };
    let (b0, g0, r0, a0, b1, g1, r1, a1) = (c0.b, c0.g, c0.r, c0.a, c1.b, c1.g, c1.r, c1.a);
    let mccv = MccvChunk { colors: vec![c0, c1] };
    let mut buf = [0xAAu8; 24];
    let left = {
        let mut w: &mut [u8] = &mut buf[..];
        match blk_mccv_emit(&mut w, &mccv) { Ok(()) => {}, Err(e) => { core::mem::forget(e); assert!(false, "emission succeeds"); } }
        w.len()
    };
    assert!(left == 8, "8-byte chunk header + 4 bytes per colour");
    assert!(buf[0..4] == ChunkId::MCCV.0, "chunk magic");
    assert!(buf[4..8] == 8u32.to_le_bytes(), "size field = 4 * number of colours");
    assert!(buf[8] == b0 && buf[9] == g0 && buf[10] == r0 && buf[11] == a0, "colour 0 stored B,G,R,A");
    assert!(buf[12] == b1 && buf[13] == g1 && buf[14] == r1 && buf[15] == a1, "colour 1 stored B,G,R,A");
    core::mem::forget(mccv);
}

// ------------------------------------------------------------------------------------ U14.6 MH2O instance offsets (E11 block)
/// stand-ins for Mh2oEntry / VertexDataArray in the offset statements of write_mh2o_chunk (they use .get(idx), .as_ref(), .byte_size())
pub struct VertexBytesP {
    pub n: usize,
}
impl VertexBytesP {
    pub fn byte_size(&self) -> usize {
        self.n
    }
}
pub struct WaterEntryP {
    pub exists_bitmaps: Vec<Option<u64>>,
    pub vertex_data: Vec<Option<VertexBytesP>>,
}

// write_mh2o_chunk emits, per map chunk with water: the n instance records, then for each instance its 8-byte exists bitmap (if any)
// followed by its vertex data (if any).  The offset words written into instance i must therefore be: position after the n records
// + the bytes of everything emitted for the instances before i (+ 8 for the vertex data when instance i has a bitmap) - whatever
// layer_count the caller left in the header
// @harness unit=U14.6 props=C14 kind=bounded bound="<= 3 liquid layers per map chunk; every bitmap/vertex presence, vertex byte count, header value" timeout=600 target="builder/serializer.rs: write_mh2o_chunk instance offset statements (E11 block)" oracle=adt_water
#[kani::proof]
#[kani::unwind(6)]
#[kani::stub(alloc::fmt::format, stub_format)]
fn u14_6_mh2o_instance_offsets() {
    use crate::chunks::mh2o::Mh2oInstance;
    let n: usize = kani::any();
    kani::assume(n >= 1 && n <= 3);
    let has_bm: [bool; 3] = kani::any();
    let has_vd: [bool; 3] = kani::any();
    let vd_len: [u16; 3] = kani::any();
    let mut inst = Vec::with_capacity(3);
    let mut bms = Vec::with_capacity(3);
    let mut vds = Vec::with_capacity(3);
    let mut i = 0;
    while i < n {
        inst.push(Mh2oInstance { liquid_type: 0, liquid_object_or_lvf: 0, min_height_level: 0.0, max_height_level: 0.0, x_offset: 0, y_offset: 0, width: 8, height: 8,
            offset_exists_bitmap: kani::any(), offset_vertex_data: kani::any() });
        bms.push(if has_bm[i] { Some(kani::any()) } else { None });
        vds.push(if has_vd[i] { Some(VertexBytesP { n: vd_len[i] as usize }) } else { None });
        i += 1;
    }
    let entry = WaterEntryP { exists_bitmaps: bms, vertex_data: vds };
    let header = Mh2oHeader { offset_instances: kani::any(), layer_count: kani::any(), offset_attributes: kani::any() };
    let data_start: u64 = kani::any();
    let rel: u32 = kani::any();
    kani::assume(data_start < (1 << 40) && rel < (1 << 30));
    let current_pos = data_start + rel as u64;
    blk_mh2o_instance_offsets(&mut inst, &entry, header, current_pos, data_start);
    let mut at = rel as u64 + (n as u64) * 24;
    let mut i = 0;
    while i < n {
        if has_bm[i] {
            assert!(inst[i].offset_exists_bitmap as u64 == at, "bitmap offset = where the emission loop puts the bitmap of this layer");
            at += 8;
        } else {
            assert!(inst[i].offset_exists_bitmap == 0, "no bitmap: offset 0");
        }
        if has_vd[i] {
            assert!(inst[i].offset_vertex_data as u64 == at, "vertex data offset = where the emission loop puts the vertex data of this layer");
            at += vd_len[i] as u64;
        } else {
            assert!(inst[i].offset_vertex_data == 0, "no vertex data: offset 0");
        }
        i += 1;
    }
    core::mem::forget(inst);
    core::mem::forget(entry);
}
