//! Harnesses inside wow-adt builder::serializer (private offset/flag calculators).
use super::*;

pub fn stub_format(_args: core::fmt::Arguments<'_>) -> String {
    String::new()
}

fn any_positions() -> ChunkPositions {
    let base: u64 = kani::any();
    // positions are absolute file offsets recorded after the MHDR payload start (serialize_to_writer writes MHDR
    // first); 0 encodes "chunk absent".  Files are far below 4 GiB.
    kani::assume(base >= 8 && base < (1 << 31));
    let pos = |present: bool| -> u64 {
        if present {
            let p: u64 = kani::any();
            kani::assume(p >= base && p < (1 << 32));
            p
        } else {
            0
        }
    };
    let opt = |present: bool| -> Option<u64> {
        if present {
            let p: u64 = kani::any();
            kani::assume(p >= base && p < (1 << 32));
            Some(p)
        } else {
            None
        }
    };
    let mcin: u64 = kani::any();
    kani::assume(mcin >= base + 8 && mcin < (1 << 32));
    ChunkPositions {
        mhdr_data_start: base,
        mcin_data_start: mcin,
        mtex: pos(kani::any()),
        mmdx: pos(kani::any()),
        mmid: pos(kani::any()),
        mwmo: pos(kani::any()),
        mwid: pos(kani::any()),
        mddf: pos(kani::any()),
        modf: pos(kani::any()),
        mfbo: opt(kani::any()),
        mh2o: opt(kani::any()),
        mtxf: opt(kani::any()),
        mamp: None,
        mtxp: None,
        mbmh: None,
        mbbb: None,
        mbnv: None,
        mbmi: None,
        mcnk_start: 0,
        mcnk_entries: Vec::new(),
    }
}

// every MHDR offset-table entry is the distance from the MHDR payload start to the named chunk (0 = absent),
// and the flag bits say exactly which optional chunks exist
// @harness unit=U14.2 props=C14 kind=complete timeout=600 target="builder/serializer.rs: calculate_mhdr_offsets, calculate_mhdr_flags (every position value below 4 GiB)" oracle=adt_offsets
#[kani::proof]
#[kani::unwind(4)]
#[kani::stub(alloc::fmt::format, stub_format)]
fn u14_2_mhdr_offsets_point_at_their_chunks() {
    let p = any_positions();
    let h = calculate_mhdr_offsets(&p);
    let base = p.mhdr_data_start;
    let rel = |pos: u64| -> u32 { if pos == 0 { 0 } else { (pos - base) as u32 } };
    assert!(h.mcin_offset as u64 + base == p.mcin_data_start - 8, "MCIN entry points at the MCIN chunk header");
    assert!(h.mtex_offset == rel(p.mtex) && h.mmdx_offset == rel(p.mmdx) && h.mmid_offset == rel(p.mmid), "MTEX/MMDX/MMID entries");
    assert!(h.mwmo_offset == rel(p.mwmo) && h.mwid_offset == rel(p.mwid) && h.mddf_offset == rel(p.mddf) && h.modf_offset == rel(p.modf), "MWMO/MWID/MDDF/MODF entries");
    assert!(h.mfbo_offset == p.mfbo.map_or(0, rel) && h.mh2o_offset == p.mh2o.map_or(0, rel) && h.mtxf_offset == p.mtxf.map_or(0, rel), "optional chunk entries (0 when absent)");
    assert!((h.flags & 0x01 != 0) == p.mfbo.is_some() && (h.flags & 0x02 != 0) == p.mh2o.is_some() && h.flags & !0x03 == 0, "flag bit <=> optional chunk present");
    assert!(h.unused1 == 0 && h.unused2 == 0 && h.unused3 == 0 && h.unused4 == 0);
    core::mem::forget(p);
}

