// no root-level harnesses for wow-adt yet
