//! Kani harnesses for wow-adt at the crate root (copied into the scratch copy as src/verif_kani.rs by /verif/check).
//! The serializer's private calculators are exercised from builder::serializer::verif_kani (verif_kani_serializer.rs).
#![allow(unused_imports, dead_code)]
use crate::chunks::MfboChunk;
use crate::version::AdtVersion;

pub fn stub_format(_args: core::fmt::Arguments<'_>) -> String {
    String::new()
}

include!("verif_blocks.rs");

/// stand-in for the optional chunks of RootAdt in the version-gate block of BuiltAdt::from_root_adt: only presence
/// matters to the gates, so every payload type except MfboChunk (built by the block itself) is replaced by u8
pub struct RootGates {
    pub flight_bounds: Option<MfboChunk>,
    pub water_data: Option<u8>,
    pub texture_flags: Option<u8>,
    pub texture_amplifier: Option<u8>,
    pub texture_params: Option<u8>,
    pub blend_mesh_headers: Option<u8>,
    pub blend_mesh_bounds: Option<u8>,
    pub blend_mesh_vertices: Option<u8>,
    pub blend_mesh_indices: Option<u8>,
}

fn any_version() -> AdtVersion {
    let k: u8 = kani::any();
    match k % 6 {
        0 => AdtVersion::VanillaEarly,
        1 => AdtVersion::VanillaLate,
        2 => AdtVersion::TBC,
        3 => AdtVersion::WotLK,
        4 => AdtVersion::Cataclysm,
        _ => AdtVersion::MoP,
    }
}

// parsed tile -> builder state: a chunk is kept exactly when the target version has it (MFBO from TBC, MH2O/MTXF from
// WotLK, MAMP from Cataclysm, MTXP and the blend mesh chunks from MoP), and a TBC+ target always has flight bounds
// (the only TBC marker, so that the rebuilt tile is detected as the same version).  Loop-free, every version x presence.
// @harness unit=U14.4 props=C14 kind=complete timeout=300 target="builder/built_adt.rs: BuiltAdt::from_root_adt version-gate block (E11)" oracle=adt_offsets
#[kani::proof]
#[kani::unwind(12)]
#[kani::stub(alloc::fmt::format, stub_format)]
fn u14_4_version_gates() {
    let opt = |p: bool| if p { Some(7u8) } else { None };
    let fb: bool = kani::any();
    let root = RootGates {
        flight_bounds: if fb { Some(MfboChunk { max_plane: kani::any(), min_plane: kani::any() }) } else { None },
        water_data: opt(kani::any()), texture_flags: opt(kani::any()), texture_amplifier: opt(kani::any()), texture_params: opt(kani::any()),
        blend_mesh_headers: opt(kani::any()), blend_mesh_bounds: opt(kani::any()), blend_mesh_vertices: opt(kani::any()), blend_mesh_indices: opt(kani::any()),
    };
    let had = (root.water_data.is_some(), root.texture_flags.is_some(), root.texture_amplifier.is_some(), root.texture_params.is_some(),
        root.blend_mesh_headers.is_some(), root.blend_mesh_bounds.is_some(), root.blend_mesh_vertices.is_some(), root.blend_mesh_indices.is_some());
    let version = any_version();
    let (flight, water, tflags, tamp, tparams, bh, bb, bv, bi) = blk_version_gates(root, version);
    assert!(flight.is_some() == (version >= AdtVersion::TBC), "flight bounds exactly from TBC on");
    assert!(water.is_some() == (had.0 && version >= AdtVersion::WotLK), "MH2O kept from WotLK on");
    assert!(tflags.is_some() == (had.1 && version >= AdtVersion::WotLK), "MTXF kept from WotLK on");
    assert!(tamp.is_some() == (had.2 && version >= AdtVersion::Cataclysm), "MAMP kept from Cataclysm on");
    assert!(tparams.is_some() == (had.3 && version >= AdtVersion::MoP), "MTXP kept from MoP on");
    assert!(bh.is_some() == (had.4 && version >= AdtVersion::MoP) && bb.is_some() == (had.5 && version >= AdtVersion::MoP), "blend mesh headers/bounds kept from MoP on");
    assert!(bv.is_some() == (had.6 && version >= AdtVersion::MoP) && bi.is_some() == (had.7 && version >= AdtVersion::MoP), "blend mesh vertices/indices kept from MoP on");
}

// ------------------------------------------------------------------------------------ U14.7 MCLQ height gate (E11 block)
// MclqChunk::read_options refuses a body whose height range looks corrupted.  Everything the serializer can emit for a real liquid
// - any finite range within the world's vertical extent, INCLUDING a level surface (min == max: open ocean, lakes) - must pass the
// gate, or the liquid silently disappears on parse (the MCNK reader swallows the error); NaN / infinite / inverted ranges do not pass
// @harness unit=U14.7 props=C14 kind=complete timeout=300 target="chunks/mcnk/mclq.rs: MclqChunk::read_options height validity statement (E11 block), every pair of f32 bit patterns" oracle=adt_water
#[kani::proof]
#[kani::unwind(4)]
#[kani::stub(alloc::fmt::format, stub_format)]
fn u14_7_mclq_height_gate() {
    let lo: f32 = kani::any();
    let hi: f32 = kani::any();
    let ok = blk_mclq_heights_valid(lo, hi);
    if lo.is_finite() && hi.is_finite() && lo >= -10000.0 && hi <= 10000.0 && lo <= hi {
        assert!(ok, "a finite, ordered (possibly level) height range inside the vertical extent is accepted");
    }
    if lo.is_nan() || hi.is_nan() || lo.is_infinite() || hi.is_infinite() || lo > hi {
        assert!(!ok, "NaN, infinite or inverted ranges are refused");
    }
}
