//! Harnesses inside crypto::jenkins (private hashlittle2).
use super::*;

pub fn stub_format(_args: core::fmt::Arguments<'_>) -> String {
    String::new()
}

fn rot(x: u32, k: u32) -> u32 {
    x.rotate_left(k)
}

/// lookup3.c hashlittle2 written byte-wise from the published source (reference for the harness)
fn ref_hashlittle2(key: &[u8], pc: u32, pb: u32) -> (u32, u32) {
    let mut a = 0xdeadbeefu32.wrapping_add(key.len() as u32).wrapping_add(pc);
    let mut b = a;
    let mut c = a.wrapping_add(pb);
    let mut off = 0usize;
    while key.len() - off > 12 {
        let w = |i: usize| (key[off + i] as u32) | ((key[off + i + 1] as u32) << 8) | ((key[off + i + 2] as u32) << 16) | ((key[off + i + 3] as u32) << 24);
        a = a.wrapping_add(w(0));
        b = b.wrapping_add(w(4));
        c = c.wrapping_add(w(8));
        a = a.wrapping_sub(c); a ^= rot(c, 4); c = c.wrapping_add(b);
        b = b.wrapping_sub(a); b ^= rot(a, 6); a = a.wrapping_add(c);
        c = c.wrapping_sub(b); c ^= rot(b, 8); b = b.wrapping_add(a);
        a = a.wrapping_sub(c); a ^= rot(c, 16); c = c.wrapping_add(b);
        b = b.wrapping_sub(a); b ^= rot(a, 19); a = a.wrapping_add(c);
        c = c.wrapping_sub(b); c ^= rot(b, 4); b = b.wrapping_add(a);
        off += 12;
    }
    let rest = key.len() - off;
    if rest == 0 {
        return (c, b);
    }
    let mut i = 0;
    while i < rest {
        let v = (key[off + i] as u32) << (8 * (i % 4) as u32);
        if i < 4 { a = a.wrapping_add(v) } else if i < 8 { b = b.wrapping_add(v) } else { c = c.wrapping_add(v) }
        i += 1;
    }
    c ^= b; c = c.wrapping_sub(rot(b, 14)); a ^= c; a = a.wrapping_sub(rot(c, 11));
    b ^= a; b = b.wrapping_sub(rot(a, 25)); c ^= b; c = c.wrapping_sub(rot(b, 16));
    a ^= c; a = a.wrapping_sub(rot(c, 4)); b ^= a; b = b.wrapping_sub(rot(a, 14));
    c ^= b; c = c.wrapping_sub(rot(b, 24));
    (c, b)
}

fn hashlittle2_eq_ref<const N: usize>() {
    let key: [u8; N] = kani::any();
    let mut pc: u32 = kani::any();
    let mut pb: u32 = kani::any();
    let (rc, rb) = ref_hashlittle2(&key, pc, pb);
    hashlittle2(&key, &mut pc, &mut pb);
    assert!(pc == rc && pb == rb, "hashlittle2 equals the reference lookup3 value");
}

macro_rules! hl2 {
    ($name:ident, $n:expr) => {
        #[kani::proof]
        #[kani::unwind(16)]
        #[kani::stub(alloc::fmt::format, stub_format)]
        fn $name() {
            hashlittle2_eq_ref::<$n>();
        }
    };
}
// @harness unit=U04.6 props=C04 kind=bounded bound="key length 0" timeout=300 target="crypto/jenkins.rs: hashlittle2 (all bytes and seeds)" oracle=hash
hl2!(u04_6_hashlittle2_l0, 0);
// @harness unit=U04.6 props=C04 kind=bounded bound="key length 1" timeout=300 target="hashlittle2" oracle=hash
hl2!(u04_6_hashlittle2_l1, 1);
// @harness unit=U04.6 props=C04 kind=bounded bound="key length 3" timeout=300 target="hashlittle2" oracle=hash
hl2!(u04_6_hashlittle2_l3, 3);
// @harness unit=U04.6 props=C04 kind=bounded bound="key length 5" timeout=300 target="hashlittle2" oracle=hash
hl2!(u04_6_hashlittle2_l5, 5);
// @harness unit=U04.6 props=C04 kind=bounded bound="key length 7" timeout=300 target="hashlittle2" oracle=hash
hl2!(u04_6_hashlittle2_l7, 7);
// @harness unit=U04.6 props=C04 kind=bounded bound="key length 9" timeout=300 target="hashlittle2" oracle=hash
hl2!(u04_6_hashlittle2_l9, 9);
// @harness unit=U04.6 props=C04 kind=bounded bound="key length 11" timeout=300 target="hashlittle2" oracle=hash
hl2!(u04_6_hashlittle2_l11, 11);
// @harness unit=U04.6 props=C04 kind=bounded bound="key length 12" timeout=300 target="hashlittle2" oracle=hash
hl2!(u04_6_hashlittle2_l12, 12);
// @harness unit=U04.6 props=C04 kind=bounded bound="key length 13" timeout=300 target="hashlittle2" oracle=hash
hl2!(u04_6_hashlittle2_l13, 13);
// @harness unit=U04.6 props=C04 kind=bounded bound="key length 25" timeout=600 target="hashlittle2" oracle=hash
hl2!(u04_6_hashlittle2_l25, 25);
// @harness unit=U04.6 props=C04 kind=bounded bound="key lengths 2,4,6,8,10,24" timeout=900 target="hashlittle2" oracle=hash
#[kani::proof]
#[kani::unwind(16)]
#[kani::stub(alloc::fmt::format, stub_format)]
fn u04_6_hashlittle2_even_lengths() {
    hashlittle2_eq_ref::<2>();
    hashlittle2_eq_ref::<4>();
    hashlittle2_eq_ref::<6>();
    hashlittle2_eq_ref::<8>();
    hashlittle2_eq_ref::<10>();
    hashlittle2_eq_ref::<24>();
}

// mask algebra of the HET hash and its precondition 8 <= hash_bits (name fixed: the lookup3 core is above)
// @harness unit=U04.6 props=C04 kind=complete timeout=300 target="crypto/jenkins.rs: jenkins_hashlittle2 mask/NameHash1 algebra for every width 8..=64" oracle=hash
#[kani::proof]
#[kani::unwind(8)]
#[kani::stub(alloc::fmt::format, stub_format)]
fn u04_6_het_hash_masks() {
    let bits: u32 = kani::any();
    kani::assume(bits >= 8 && bits <= 64);
    let (fh, nh) = jenkins_hashlittle2("aB/", bits);
    if bits < 64 {
        assert!(fh < (1u64 << bits), "hash fits in the declared width");
        assert!(fh & (1u64 << (bits - 1)) != 0, "top bit of the width is set");
        assert!(nh as u64 == (fh >> (bits - 8)) & 0xFF, "NameHash1 is the top byte of the width");
    } else {
        assert!(nh as u64 == fh >> 56);
    }
    let (fh2, nh2) = jenkins_hashlittle2("Ab\\", bits);
    assert!(fh == fh2 && nh == nh2, "case and slash direction do not matter");
}

// the HET hash is the lookup3 value of the name folded BYTE by byte (ASCII upper case, '/' -> '\\'): a multi-byte UTF-8 character
// contributes all of its bytes, unchanged
// @harness unit=U04.6 props=C04 kind=bounded bound="names of one two-byte UTF-8 character (U+00FC) followed by one ASCII byte (every value)" timeout=900 target="crypto/jenkins.rs: jenkins_hashlittle2 folding of the name (non-ASCII names)" oracle=hash
#[kani::proof]
#[kani::unwind(16)]
#[kani::stub(alloc::fmt::format, stub_format)]
fn u04_6_het_hash_folds_bytes() {
    let a: u8 = kani::any();
    kani::assume(a < 0x80);
    let raw = [0xC3u8, 0xBC, a];
    let name = unsafe { core::str::from_utf8_unchecked(&raw) }; // well-formed by construction: U+00FC + ASCII
    let fa = if a == b'/' { b'\\' } else if a >= b'a' && a <= b'z' { a - 32 } else { a };
    let folded = [0xC3u8, 0xBC, fa];
    let (c, b) = ref_hashlittle2(&folded, 2, 1);
    let want = ((b as u64) << 32) | (c as u64);
    let (fh, nh) = jenkins_hashlittle2(name, 64);
    assert!(fh == want, "64-bit HET hash = lookup3 (seeds 2, 1) of the byte-folded name");
    assert!(nh as u64 == want >> 56, "NameHash1 = top byte");
}
