//! Harnesses inside tables::het (private fields of HetTable).
use super::*;

pub fn stub_format(_args: core::fmt::Arguments<'_>) -> String {
    String::new()
}

// HET lookup on a table whose header fields are arbitrary (they come straight from the file): no panic.
// @harness unit=U05.4 props=C05 kind=bounded bound="HET hash table <= 2 entries, index bytes <= 4; every header field value" tier=thorough timeout=1200 target="tables/het.rs: HetTable::find_file_with_collision_info, read_file_index (caller side of jenkins_hashlittle2's 8 <= hash_bits)" oracle=het_header
#[kani::proof]
#[kani::unwind(8)]
#[kani::stub(alloc::fmt::format, stub_format)]
fn u05_4_het_lookup_total() {
    let header = HetHeader {
        table_size: kani::any(),
        max_file_count: kani::any(),
        hash_table_size: kani::any(),
        hash_entry_size: kani::any(),
        total_index_size: kani::any(),
        index_size_extra: kani::any(),
        index_size: kani::any(),
        block_table_size: kani::any(),
    };
    let hs: u32 = header.hash_table_size;
    kani::assume(hs <= 2);
    let ht: [u8; 2] = kani::any();
    let idx: [u8; 4] = kani::any();
    let t = HetTable { header, hash_table: ht[..hs as usize].to_vec(), file_indices: idx.to_vec() };
    let (r, c) = t.find_file_with_collision_info("a");
    core::mem::forget(c);
    core::mem::forget(t);
    let _ = r;
}
