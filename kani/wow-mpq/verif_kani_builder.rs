//! Harnesses inside builder.rs (private methods of ArchiveBuilder).
use super::*;
use crate::crypto::{hash_string, hash_type};

include!("verif_blocks_builder.rs");

pub fn stub_format(_args: core::fmt::Arguments<'_>) -> String {
    String::new()
}

// @harness unit=U01.4 props=C01,C02 kind=complete timeout=600 target="builder.rs: calculate_file_key (published formula, all positions/sizes/flags; name fixed: its hash is U04)" oracle=mpq_interop
#[kani::proof]
#[kani::unwind(8)]
#[kani::stub(alloc::fmt::format, stub_format)]
fn u01_4_builder_file_key_formula() {
    let b = ArchiveBuilder::new();
    // published format: the base key is the hash of the PLAIN name (after the last separator)
    let name = "a\\b.c";
    let base = hash_string("b.c", hash_type::FILE_KEY);
    let pos: u64 = kani::any();
    let size: u32 = kani::any();
    let flags: u32 = kani::any();
    let key = b.calculate_file_key(name, pos, size, flags);
    let want = if flags & BlockEntry::FLAG_FIX_KEY != 0 { base.wrapping_add(pos as u32) ^ size } else { base };
    assert!(key == want, "file key = hash(name, FILE_KEY), adjusted as (key + file position) ^ file size under FIX_KEY");
    core::mem::forget(b);
}

// @harness unit=U01.3 props=C01 kind=bounded bound="<= 5 pending files (the arithmetic is on the count only)" timeout=600 target="builder.rs: calculate_hash_table_size (power of two, >= 16, >= 2 x entries: a never-used slot always exists)"
#[kani::proof]
#[kani::unwind(8)]
#[kani::stub(alloc::fmt::format, stub_format)]
fn u01_3_hash_table_size_leaves_free_slots() {
    let mut b = ArchiveBuilder::new();
    let n: usize = kani::any();
    kani::assume(n <= 5);
    let mut i = 0;
    while i < n {
        b = b.add_file_data(Vec::new(), "x");
        i += 1;
    }
    let entries = n + 1; // pending files + the generated (listfile)
    let size = b.calculate_hash_table_size();
    assert!(size.is_power_of_two() && size >= 16, "hash table size is a power of two >= 16");
    assert!(size as usize >= 2 * entries, "at least half of the slots stay never-used");
    core::mem::forget(b);
}

// @harness unit=U01.2 props=C01 kind=complete timeout=300 target="builder.rs: calculate_bits_needed (least width that holds the value, all u64)"
#[kani::proof]
#[kani::unwind(4)]
#[kani::stub(alloc::fmt::format, stub_format)]
fn u01_2_bits_needed() {
    let v: u64 = kani::any();
    let bits = ArchiveBuilder::calculate_bits_needed(v);
    assert!(bits >= 1 && bits <= 64);
    assert!(bits == 64 || v < (1u64 << bits), "value fits in the width");
    assert!(bits == 1 || v >= (1u64 << (bits - 1)), "no smaller width fits");
}

// the key statements of write_file (single-unit and sectored branch): the key is derived from the ORIGINAL file size
// @harness unit=U01.4 props=C01,C02 kind=bounded bound="file data <= 6 bytes (only its length enters the key)" timeout=600 target="builder.rs: write_file key statements (E11 blocks)" oracle=mpq_interop
#[kani::proof]
#[kani::unwind(8)]
#[kani::stub(alloc::fmt::format, stub_format)]
fn u01_4_write_file_key_uses_file_size() {
    let b = ArchiveBuilder::new();
    // published format: the base key is the hash of the PLAIN name (after the last separator)
    let name = "a\\b.c";
    let base = hash_string("b.c", hash_type::FILE_KEY);
    let pos: u64 = kani::any();
    let flags: u32 = kani::any();
    let data = [0u8; 6];
    let n: usize = kani::any();
    kani::assume(n <= 6);
    let want = if flags & BlockEntry::FLAG_FIX_KEY != 0 { base.wrapping_add(pos as u32) ^ (n as u32) } else { base };
    assert!(blk_write_file_key_single(&b, name, &pos, &data[..n], flags) == want, "single-unit key uses position and uncompressed size");
    assert!(blk_write_file_key_sectored(&b, name, &pos, &data[..n], flags) == want, "sectored key uses position and uncompressed size");
    core::mem::forget(b);
}

// ------------------------------------------------------------------------------------ U02.4 table serialisation (writer side)
// the plain-text image of a hash entry before encryption: name hashes at +0/+4, locale u16 at +8, platform u16 at +10,
// block index at +12, little-endian; of a block entry: position, compressed size, file size, flags (E11 blocks)
// @harness unit=U02.4 props=C02,C01 kind=bounded bound="tables of 1 entry; every field value" timeout=600 target="builder.rs: write_hash_table / write_block_table serialisation loops (E11 blocks)" oracle=mpq_interop
#[kani::proof]
#[kani::unwind(6)]
#[kani::stub(alloc::fmt::format, stub_format)]
fn u02_4_table_serialize_layout() {
    let mut ht = match HashTable::new(1) { Ok(t) => t, Err(e) => { core::mem::forget(e); return; } };
    let (n1, n2, loc, plat, bi): (u32, u32, u16, u16, u32) = (kani::any(), kani::any(), kani::any(), kani::any(), kani::any());
    {
        let e = ht.get_mut(0).unwrap();
        e.name_1 = n1; e.name_2 = n2; e.locale = loc; e.platform = plat; e.block_index = bi;
    }
    let bytes = match blk_hash_table_serialize(&ht) { Ok(b) => b, Err(e) => { core::mem::forget(e); assert!(false, "serialisation succeeds"); return; } };
    assert!(bytes.len() == 16, "16 bytes per hash entry");
    assert!(bytes[0..4] == n1.to_le_bytes() && bytes[4..8] == n2.to_le_bytes(), "name hashes first");
    assert!(bytes[8..10] == loc.to_le_bytes(), "locale at +8");
    assert!(bytes[10..12] == plat.to_le_bytes(), "platform at +10");
    assert!(bytes[12..16] == bi.to_le_bytes(), "block index at +12");
    core::mem::forget(bytes);
    core::mem::forget(ht);
}

// ------------------------------------------------------------------------------------ U02.5 header layout (V1 / V2)
// The published header: 'MPQ\x1A', header size 32 / 44, 32-bit archive size, format version, sector shift, the four
// table words; V2 adds the 64-bit hi-block table position and the two 16-bit high parts.  Every field at its published
// offset, little-endian, for every parameter value; and MpqHeader::read returns the same values.
fn header_layout(v2: bool) {
    let shift: u16 = kani::any();
    kani::assume(shift <= 15);
    let b = ArchiveBuilder::new().version(if v2 { FormatVersion::V2 } else { FormatVersion::V1 }).block_size(shift);
    let p = HeaderWriteParams { archive_size: kani::any(), hash_table_pos: kani::any(), block_table_pos: kani::any(), hash_table_size: kani::any(),
        block_table_size: kani::any(), hi_block_table_pos: if kani::any() { Some(kani::any()) } else { None }, het_table_pos: None, bet_table_pos: None,
        _het_table_size: None, _bet_table_size: None, v4_data: None };
    let mut buf = [0xAAu8; 48];
    let n = {
        let mut c = std::io::Cursor::new(&mut buf[..]);
        match b.write_header(&mut c, &p) { Ok(()) => {}, Err(e) => { core::mem::forget(e); assert!(false, "header write succeeds"); } }
        c.position() as usize
    };
    let want = if v2 { 44 } else { 32 };
    assert!(n == want, "header has the size of its version");
    let w32 = |o: usize| u32::from_le_bytes([buf[o], buf[o + 1], buf[o + 2], buf[o + 3]]);
    let w16 = |o: usize| u16::from_le_bytes([buf[o], buf[o + 1]]);
    assert!(buf[0] == b'M' && buf[1] == b'P' && buf[2] == b'Q' && buf[3] == 0x1A, "signature");
    assert!(w32(4) == want as u32, "header size field");
    assert!(w32(8) == (if p.archive_size > u32::MAX as u64 { u32::MAX } else { p.archive_size as u32 }), "32-bit archive size (saturated)");
    assert!(w16(12) == (if v2 { 1 } else { 0 }) && w16(14) == shift, "format version and sector shift");
    assert!(w32(16) == p.hash_table_pos as u32 && w32(20) == p.block_table_pos as u32, "low parts of the table positions");
    assert!(w32(24) == p.hash_table_size && w32(28) == p.block_table_size, "table sizes");
    if v2 {
        let hi = u64::from(w32(32)) | (u64::from(w32(36)) << 32);
        assert!(hi == p.hi_block_table_pos.unwrap_or(0), "hi-block table position (0 when there is none)");
        assert!(w16(40) == (p.hash_table_pos >> 32) as u16 && w16(42) == (p.block_table_pos >> 32) as u16, "high 16 bits of the table positions");
    }
    assert!(buf[want] == 0xAA, "nothing beyond the header");
    core::mem::forget(b);
}

// @harness unit=U02.5 props=C02,C01 kind=complete timeout=600 target="builder.rs: write_header, format V1 (every parameter value)" oracle=mpq_interop
#[kani::proof]
#[kani::unwind(8)]
#[kani::stub(alloc::fmt::format, stub_format)]
fn u02_5_header_layout_v1() {
    header_layout(false);
}

// @harness unit=U02.5 props=C02,C01 kind=complete timeout=600 target="builder.rs: write_header, format V2 (every parameter value)" oracle=mpq_interop
#[kani::proof]
#[kani::unwind(8)]
#[kani::stub(alloc::fmt::format, stub_format)]
fn u02_5_header_layout_v2() {
    header_layout(true);
}

// ------------------------------------------------------------------------------------ U02.6 header layout (V3 / V4)
// The published extended header: the 44 bytes of V2, then the 64-bit archive size at +0x2C, the BET table position at
// +0x34 and the HET table position at +0x3C (68 bytes); V4 adds five 64-bit compressed table sizes (hash, block, hi-block,
// HET, BET) at +0x44, the raw chunk size at +0x6C and six MD5 digests (block, hash, hi-block, BET, HET, header) at +0x70.
fn header_layout_v34(v4: bool) {
    let shift: u16 = kani::any();
    kani::assume(shift <= 15);
    let b = ArchiveBuilder::new().version(if v4 { FormatVersion::V4 } else { FormatVersion::V3 }).block_size(shift);
    let v4d = crate::header::MpqHeaderV4Data { hash_table_size_64: kani::any(), block_table_size_64: kani::any(), hi_block_table_size_64: kani::any(),
        het_table_size_64: kani::any(), bet_table_size_64: kani::any(), raw_chunk_size: kani::any(), md5_block_table: kani::any(), md5_hash_table: kani::any(),
        md5_hi_block_table: kani::any(), md5_bet_table: kani::any(), md5_het_table: kani::any(), md5_mpq_header: kani::any() };
    let v4c = v4d.clone();
    let p = HeaderWriteParams { archive_size: kani::any(), hash_table_pos: kani::any(), block_table_pos: kani::any(), hash_table_size: kani::any(),
        block_table_size: kani::any(), hi_block_table_pos: if kani::any() { Some(kani::any()) } else { None },
        het_table_pos: if kani::any() { Some(kani::any()) } else { None }, bet_table_pos: if kani::any() { Some(kani::any()) } else { None },
        _het_table_size: None, _bet_table_size: None, v4_data: if v4 { Some(v4d) } else { None } };
    let mut buf = [0xAAu8; 212];
    let n = {
        let mut c = std::io::Cursor::new(&mut buf[..]);
        match b.write_header(&mut c, &p) { Ok(()) => {}, Err(e) => { core::mem::forget(e); assert!(false, "header write succeeds"); } }
        c.position() as usize
    };
    let want = if v4 { 208 } else { 68 };
    assert!(n == want, "header has the size of its version");
    let w32 = |o: usize| u32::from_le_bytes([buf[o], buf[o + 1], buf[o + 2], buf[o + 3]]);
    let w16 = |o: usize| u16::from_le_bytes([buf[o], buf[o + 1]]);
    let w64 = |o: usize| u64::from(w32(o)) | (u64::from(w32(o + 4)) << 32);
    assert!(buf[0] == b'M' && buf[1] == b'P' && buf[2] == b'Q' && buf[3] == 0x1A, "signature");
    assert!(w32(4) == want as u32, "header size field");
    assert!(w16(12) == (if v4 { 3 } else { 2 }) && w16(14) == shift, "format version and sector shift");
    assert!(w32(16) == p.hash_table_pos as u32 && w32(20) == p.block_table_pos as u32, "low parts of the table positions");
    assert!(w32(24) == p.hash_table_size && w32(28) == p.block_table_size, "table sizes");
    assert!(w64(32) == p.hi_block_table_pos.unwrap_or(0), "hi-block table position (0 when there is none)");
    assert!(w16(40) == (p.hash_table_pos >> 32) as u16 && w16(42) == (p.block_table_pos >> 32) as u16, "high 16 bits of the table positions");
    assert!(w64(0x2C) == p.archive_size, "64-bit archive size at +0x2C");
    assert!(w64(0x34) == p.bet_table_pos.unwrap_or(0), "BET table position at +0x34 (0 when there is none)");
    assert!(w64(0x3C) == p.het_table_pos.unwrap_or(0), "HET table position at +0x3C (0 when there is none)");
    if v4 {
        assert!(w64(0x44) == v4c.hash_table_size_64 && w64(0x4C) == v4c.block_table_size_64 && w64(0x54) == v4c.hi_block_table_size_64, "compressed sizes of hash, block, hi-block table");
        assert!(w64(0x5C) == v4c.het_table_size_64 && w64(0x64) == v4c.bet_table_size_64, "compressed sizes of HET, BET table");
        assert!(w32(0x6C) == v4c.raw_chunk_size, "raw chunk size at +0x6C");
        let j: usize = kani::any();
        kani::assume(j < 16);
        assert!(buf[0x70 + j] == v4c.md5_block_table[j] && buf[0x80 + j] == v4c.md5_hash_table[j] && buf[0x90 + j] == v4c.md5_hi_block_table[j], "digests of block, hash, hi-block table");
        assert!(buf[0xA0 + j] == v4c.md5_bet_table[j] && buf[0xB0 + j] == v4c.md5_het_table[j] && buf[0xC0 + j] == v4c.md5_mpq_header[j], "digests of BET, HET table and header");
    }
    assert!(buf[want] == 0xAA, "nothing beyond the header");
    core::mem::forget(b);
}

// @harness unit=U02.6 props=C02,C01 kind=complete timeout=600 target="builder.rs: write_header, format V3 (every parameter value)" oracle=mpq_interop
#[kani::proof]
#[kani::unwind(18)]
#[kani::stub(alloc::fmt::format, stub_format)]
fn u02_6_header_layout_v3() {
    header_layout_v34(false);
}

// @harness unit=U02.6 props=C02,C01 kind=complete timeout=900 target="builder.rs: write_header, format V4 (every parameter value)" oracle=mpq_interop
#[kani::proof]
#[kani::unwind(18)]
#[kani::stub(alloc::fmt::format, stub_format)]
fn u02_6_header_layout_v4() {
    header_layout_v34(true);
}

// ------------------------------------------------------------------------------------ U01.5 write_file: the stored form of one file
// Whole function, real code.  `compress` is replaced by a deterministic instance of its (Verus-proved, U03.codecs)
// contract: the result is the input itself or the method byte followed by strictly fewer bytes than the input.  The
// harness then reads the emitted bytes back the way the published format prescribes: offset table of sector_count + 1
// little-endian words enciphered with key - 1, first entry = bytes before the first sector, consecutive differences =
// stored sector sizes, sector i enciphered with key + i, key = published formula over the ORIGINAL size and position.
pub fn stub_compress(data: &[u8], method: u8) -> crate::Result<Vec<u8>> {
    if data.len() >= 2 && data[0] & 1 == 1 {
        let mut v = Vec::with_capacity(data.len() - 1);
        v.push(method);
        let mut i = 1;
        while i + 1 < data.len() {
            v.push(data[i] ^ 0x5A);
            i += 1;
        }
        Ok(v)
    } else {
        Ok(data.to_vec())
    }
}

fn stored_len(sector: &[u8], compression: u8) -> usize {
    if compression != 0 && sector.len() >= 2 && sector[0] & 1 == 1 { sector.len() - 1 } else { sector.len() }
}

fn stored_byte(sector: &[u8], compression: u8, j: usize) -> u8 {
    if compression != 0 && sector.len() >= 2 && sector[0] & 1 == 1 {
        if j == 0 { compression } else { sector[j] ^ 0x5A }
    } else {
        sector[j]
    }
}

/// external crate adler2 is not under contract: the checksum is an uninterpreted-style stand-in (position-weighted sum),
/// the harness only decides WHICH bytes are checksummed and WHERE the word is stored
pub fn stub_adler(data: &[u8]) -> u32 {
    let mut a: u32 = 1;
    let mut i = 0;
    while i < data.len() {
        a = a.wrapping_mul(31).wrapping_add(data[i] as u32 + 1);
        i += 1;
    }
    a
}

fn write_file_layout(len: usize, sector_size: usize, crcs: bool, encrypt: bool, compression: u8, use_fix_key: bool, file_pos: u64) {
    let b = ArchiveBuilder::new().generate_crcs(crcs);
    let name = "b";
    let data_full: [u8; 4] = kani::any();
    let data = &data_full[..len];
    let params = FileWriteParams { file_data: data, archive_name: name, compression, encrypt, use_fix_key, sector_size, file_pos };
    let mut buf = [0xAAu8; 40];
    let (size, flags, written) = {
        let mut c = std::io::Cursor::new(&mut buf[..]);
        match b.write_file(&mut c, &params) {
            Ok((s, f)) => (s, f, c.position() as usize),
            Err(e) => { core::mem::forget(e); assert!(false, "writing to a large enough sink succeeds"); return; }
        }
    };
    // flag word
    assert!((flags & BlockEntry::FLAG_ENCRYPTED != 0) == encrypt, "ENCRYPTED iff requested");
    assert!((flags & BlockEntry::FLAG_FIX_KEY != 0) == (encrypt && use_fix_key), "FIX_KEY iff requested with encryption");
    assert!((flags & BlockEntry::FLAG_SECTOR_CRC != 0) == crcs, "SECTOR_CRC iff checksums are generated");
    assert!((flags & BlockEntry::FLAG_SINGLE_UNIT != 0) == (len <= sector_size), "SINGLE_UNIT iff the file fits one sector");
    let base = hash_string(name, hash_type::FILE_KEY);
    let key = if encrypt && use_fix_key { base.wrapping_add(file_pos as u32) ^ (len as u32) } else { base };
    if len <= sector_size {
        let sl = if len == 0 { 0 } else { stored_len(data, compression) };
        assert!(size == sl, "reported stored size = stored bytes (checksum not counted)");
        assert!(written == sl + if crcs { 4 } else { 0 }, "bytes written = stored bytes + optional checksum word");
        assert!((flags & BlockEntry::FLAG_COMPRESS != 0) == (sl != len), "COMPRESS iff the stored form is the compressed one");
        let mut plain = [0u8; 4];
        plain[..sl].copy_from_slice(&buf[..sl]);
        if encrypt { crate::archive::decrypt_file_data(&mut plain[..sl], key); }
        let j: usize = kani::any();
        kani::assume(j < sl);
        assert!(plain[j] == stored_byte(data, compression, j), "deciphering with the published key yields the stored form");
        if crcs {
            let c = u32::from_le_bytes([buf[sl], buf[sl + 1], buf[sl + 2], buf[sl + 3]]);
            assert!(c == adler2::adler32_slice(data), "checksum word = ADLER32 of the original bytes");
        }
    } else {
        let n = (len + sector_size - 1) / sector_size;
        let table = (n + 1) * 4;
        let crc_bytes = if crcs { n * 4 } else { 0 };
        // stored sector lengths
        let mut sl = [0usize; 3];
        let mut any_compressed = false;
        let mut i = 0;
        while i < n {
            let s = &data[i * sector_size..core::cmp::min((i + 1) * sector_size, len)];
            sl[i] = stored_len(s, compression);
            if sl[i] != s.len() { any_compressed = true; }
            i += 1;
        }
        let total: usize = sl[0] + sl[1] + sl[2];
        // published format: a sector offset table exists only on files marked compressed, so the flag accompanies the table
        // whether or not any sector shrank (F1: it used to be set only when one did, and such files read back as table + data)
        let _ = any_compressed;
        assert!(flags & BlockEntry::FLAG_COMPRESS != 0, "COMPRESS accompanies the sector offset table");
        assert!(size == table + total, "reported stored size = offset table + sector bytes (checksum table not counted)");
        assert!(written == table + crc_bytes + total, "bytes written = offset table + checksum table + sector bytes");
        // offset table
        let mut offs = [0u32; 4];
        let mut k = 0;
        while k <= n {
            offs[k] = u32::from_le_bytes([buf[4 * k], buf[4 * k + 1], buf[4 * k + 2], buf[4 * k + 3]]);
            k += 1;
        }
        if encrypt { crate::crypto::decrypt_block(&mut offs[..n + 1], key.wrapping_sub(1)); }
        assert!(offs[0] as usize == table + crc_bytes, "first offset = bytes in front of the first sector");
        let mut acc = table + crc_bytes;
        let mut i = 0;
        while i < n {
            assert!(offs[i] as usize == acc, "offset i = start of sector i relative to the file position");
            let s = &data[i * sector_size..core::cmp::min((i + 1) * sector_size, len)];
            let mut plain = [0u8; 4];
            plain[..sl[i]].copy_from_slice(&buf[acc..acc + sl[i]]);
            if encrypt { crate::archive::decrypt_file_data(&mut plain[..sl[i]], key.wrapping_add(i as u32)); }
            let j: usize = kani::any();
            kani::assume(j < sl[i]);
            assert!(plain[j] == stored_byte(s, compression, j), "sector i deciphered with key + i yields its stored form");
            if crcs {
                let o = table + 4 * i;
                let c = u32::from_le_bytes([buf[o], buf[o + 1], buf[o + 2], buf[o + 3]]);
                assert!(c == adler2::adler32_slice(s), "checksum i = ADLER32 of the original sector bytes");
            }
            acc += sl[i];
            i += 1;
        }
        assert!(offs[n] as usize == acc, "last offset = end of the stored data");
    }
    core::mem::forget(b);
}

// @harness unit=U01.5 props=C01,C02 kind=bounded bound="0-byte file in one 2-byte sector, checksums off, not encrypted, every compression selector, FIX_KEY request and position; every byte value; compress = assumed contract instance, adler32 = stand-in" timeout=600 target="builder.rs: write_file (whole function): flags, stored size, offset table, per-sector keys, checksum placement" oracle=build_lookup
#[kani::proof]
#[kani::unwind(5)]
#[kani::stub(alloc::fmt::format, stub_format)]
#[kani::stub(crate::compression::compress::compress, stub_compress)]
#[kani::stub(adler2::adler32_slice, stub_adler)]
fn u01_5_write_file_single_l0_nocrc_plain() {
    write_file_layout(0, 2, false, false, kani::any(), kani::any(), kani::any());
}

// @harness unit=U01.5 props=C01,C02 kind=bounded bound="0-byte file in one 2-byte sector, checksums on, not encrypted, every compression selector, FIX_KEY request and position; every byte value; compress = assumed contract instance, adler32 = stand-in" timeout=600 target="builder.rs: write_file (whole function): flags, stored size, offset table, per-sector keys, checksum placement" oracle=build_lookup
#[kani::proof]
#[kani::unwind(5)]
#[kani::stub(alloc::fmt::format, stub_format)]
#[kani::stub(crate::compression::compress::compress, stub_compress)]
#[kani::stub(adler2::adler32_slice, stub_adler)]
fn u01_5_write_file_single_l0_crc_plain() {
    write_file_layout(0, 2, true, false, kani::any(), kani::any(), kani::any());
}

// @harness unit=U01.5 props=C01,C02 kind=bounded bound="1-byte file in one 2-byte sector, checksums off, not encrypted, every compression selector, FIX_KEY request and position; every byte value; compress = assumed contract instance, adler32 = stand-in" timeout=600 target="builder.rs: write_file (whole function): flags, stored size, offset table, per-sector keys, checksum placement" oracle=build_lookup
#[kani::proof]
#[kani::unwind(5)]
#[kani::stub(alloc::fmt::format, stub_format)]
#[kani::stub(crate::compression::compress::compress, stub_compress)]
#[kani::stub(adler2::adler32_slice, stub_adler)]
fn u01_5_write_file_single_l1_nocrc_plain() {
    write_file_layout(1, 2, false, false, kani::any(), kani::any(), kani::any());
}

// @harness unit=U01.5 props=C01,C02 kind=bounded bound="1-byte file in one 2-byte sector, checksums on, not encrypted, every compression selector, FIX_KEY request and position; every byte value; compress = assumed contract instance, adler32 = stand-in" timeout=600 target="builder.rs: write_file (whole function): flags, stored size, offset table, per-sector keys, checksum placement" oracle=build_lookup
#[kani::proof]
#[kani::unwind(5)]
#[kani::stub(alloc::fmt::format, stub_format)]
#[kani::stub(crate::compression::compress::compress, stub_compress)]
#[kani::stub(adler2::adler32_slice, stub_adler)]
fn u01_5_write_file_single_l1_crc_plain() {
    write_file_layout(1, 2, true, false, kani::any(), kani::any(), kani::any());
}

// @harness unit=U01.5 props=C01,C02 kind=bounded bound="1-byte file in one 2-byte sector, encrypted with the plain name key, stored (selector 0), checksums on and off, every position; every byte value; compress = assumed contract instance, adler32 = stand-in" timeout=900 target="builder.rs: write_file (whole function): flags, stored size, offset table, per-sector keys, checksum placement" oracle=build_lookup
#[kani::proof]
#[kani::unwind(5)]
#[kani::stub(alloc::fmt::format, stub_format)]
#[kani::stub(crate::compression::compress::compress, stub_compress)]
#[kani::stub(adler2::adler32_slice, stub_adler)]
fn u01_5_write_file_single_l1_encrypted() {
    write_file_layout(1, 2, kani::any(), true, 0, false, kani::any());
}

// @harness unit=U01.5 props=C01,C02 kind=bounded bound="1-byte file in one 2-byte sector, encrypted with the position-adjusted key at position 0x0123456789AB (the formula for every position is u01_4), stored, checksums on and off; every byte value; compress = assumed contract instance, adler32 = stand-in" timeout=900 target="builder.rs: write_file (whole function): flags, stored size, offset table, per-sector keys, checksum placement" oracle=build_lookup
#[kani::proof]
#[kani::unwind(5)]
#[kani::stub(alloc::fmt::format, stub_format)]
#[kani::stub(crate::compression::compress::compress, stub_compress)]
#[kani::stub(adler2::adler32_slice, stub_adler)]
fn u01_5_write_file_single_l1_encrypted_fixkey() {
    write_file_layout(1, 2, kani::any(), true, 0, true, 0x0123_4567_89AB);
}

// @harness unit=U01.5 props=C01,C02 kind=bounded bound="2-byte file in one 2-byte sector, checksums off, not encrypted, every compression selector, FIX_KEY request and position; every byte value; compress = assumed contract instance, adler32 = stand-in" timeout=600 target="builder.rs: write_file (whole function): flags, stored size, offset table, per-sector keys, checksum placement" oracle=build_lookup
#[kani::proof]
#[kani::unwind(5)]
#[kani::stub(alloc::fmt::format, stub_format)]
#[kani::stub(crate::compression::compress::compress, stub_compress)]
#[kani::stub(adler2::adler32_slice, stub_adler)]
fn u01_5_write_file_single_l2_nocrc_plain() {
    write_file_layout(2, 2, false, false, kani::any(), kani::any(), kani::any());
}

// @harness unit=U01.5 props=C01,C02 kind=bounded bound="2-byte file in one 2-byte sector, checksums on, not encrypted, every compression selector, FIX_KEY request and position; every byte value; compress = assumed contract instance, adler32 = stand-in" timeout=600 target="builder.rs: write_file (whole function): flags, stored size, offset table, per-sector keys, checksum placement" oracle=build_lookup
#[kani::proof]
#[kani::unwind(5)]
#[kani::stub(alloc::fmt::format, stub_format)]
#[kani::stub(crate::compression::compress::compress, stub_compress)]
#[kani::stub(adler2::adler32_slice, stub_adler)]
fn u01_5_write_file_single_l2_crc_plain() {
    write_file_layout(2, 2, true, false, kani::any(), kani::any(), kani::any());
}

// @harness unit=U01.5 props=C01,C02 kind=bounded bound="2-byte file in one 2-byte sector, encrypted with the plain name key, stored (selector 0), checksums on and off, every position; every byte value; compress = assumed contract instance, adler32 = stand-in" timeout=900 target="builder.rs: write_file (whole function): flags, stored size, offset table, per-sector keys, checksum placement" oracle=build_lookup
#[kani::proof]
#[kani::unwind(5)]
#[kani::stub(alloc::fmt::format, stub_format)]
#[kani::stub(crate::compression::compress::compress, stub_compress)]
#[kani::stub(adler2::adler32_slice, stub_adler)]
fn u01_5_write_file_single_l2_encrypted() {
    write_file_layout(2, 2, kani::any(), true, 0, false, kani::any());
}

// @harness unit=U01.5 props=C01,C02 kind=bounded bound="2-byte file in one 2-byte sector, encrypted with the position-adjusted key at position 0x0123456789AB (the formula for every position is u01_4), stored, checksums on and off; every byte value; compress = assumed contract instance, adler32 = stand-in" timeout=900 target="builder.rs: write_file (whole function): flags, stored size, offset table, per-sector keys, checksum placement" oracle=build_lookup
#[kani::proof]
#[kani::unwind(5)]
#[kani::stub(alloc::fmt::format, stub_format)]
#[kani::stub(crate::compression::compress::compress, stub_compress)]
#[kani::stub(adler2::adler32_slice, stub_adler)]
fn u01_5_write_file_single_l2_encrypted_fixkey() {
    write_file_layout(2, 2, kani::any(), true, 0, true, 0x0123_4567_89AB);
}

// @harness unit=U01.5 props=C01,C02 kind=bounded bound="3-byte file in two 2-byte sectors, checksums off, not encrypted, every compression selector, FIX_KEY request and position; every byte value; compress = assumed contract instance, adler32 = stand-in" timeout=600 target="builder.rs: write_file (whole function): flags, stored size, offset table, per-sector keys, checksum placement" oracle=build_lookup
#[kani::proof]
#[kani::unwind(5)]
#[kani::stub(alloc::fmt::format, stub_format)]
#[kani::stub(crate::compression::compress::compress, stub_compress)]
#[kani::stub(adler2::adler32_slice, stub_adler)]
fn u01_5_write_file_sectored_l3_nocrc_plain() {
    write_file_layout(3, 2, false, false, kani::any(), kani::any(), kani::any());
}

// @harness unit=U01.5 props=C01,C02 kind=bounded bound="3-byte file in two 2-byte sectors, checksums on, not encrypted, every compression selector, FIX_KEY request and position; every byte value; compress = assumed contract instance, adler32 = stand-in" timeout=600 target="builder.rs: write_file (whole function): flags, stored size, offset table, per-sector keys, checksum placement" oracle=build_lookup
#[kani::proof]
#[kani::unwind(5)]
#[kani::stub(alloc::fmt::format, stub_format)]
#[kani::stub(crate::compression::compress::compress, stub_compress)]
#[kani::stub(adler2::adler32_slice, stub_adler)]
fn u01_5_write_file_sectored_l3_crc_plain() {
    write_file_layout(3, 2, true, false, kani::any(), kani::any(), kani::any());
}

// @harness unit=U01.5 props=C01 kind=bounded bound="4-byte file in two 2-byte sectors, checksums off, not encrypted, every compression selector, FIX_KEY request and position; every byte value; compress = assumed contract instance, adler32 = stand-in" timeout=600 target="builder.rs: write_file (whole function): flags, stored size, offset table, per-sector keys, checksum placement" oracle=build_lookup
#[kani::proof]
#[kani::unwind(5)]
#[kani::stub(alloc::fmt::format, stub_format)]
#[kani::stub(crate::compression::compress::compress, stub_compress)]
#[kani::stub(adler2::adler32_slice, stub_adler)]
fn u01_5_write_file_sectored_l4_nocrc_plain() {
    write_file_layout(4, 2, false, false, kani::any(), kani::any(), kani::any());
}

// @harness unit=U01.5 props=C01 kind=bounded bound="4-byte file in two 2-byte sectors, checksums on, not encrypted, every compression selector, FIX_KEY request and position; every byte value; compress = assumed contract instance, adler32 = stand-in" timeout=600 target="builder.rs: write_file (whole function): flags, stored size, offset table, per-sector keys, checksum placement" oracle=build_lookup
#[kani::proof]
#[kani::unwind(5)]
#[kani::stub(alloc::fmt::format, stub_format)]
#[kani::stub(crate::compression::compress::compress, stub_compress)]
#[kani::stub(adler2::adler32_slice, stub_adler)]
fn u01_5_write_file_sectored_l4_crc_plain() {
    write_file_layout(4, 2, true, false, kani::any(), kani::any(), kani::any());
}

// @harness unit=U01.5 props=C01,C02 kind=bounded bound="3-byte file in two 2-byte sectors, encrypted with the plain name key, stored (selector 0), checksums off, every position; every byte value; compress = assumed contract instance, adler32 = stand-in" timeout=900 target="builder.rs: write_file (whole function): flags, stored size, offset table, per-sector keys, checksum placement" oracle=build_lookup
#[kani::proof]
#[kani::unwind(5)]
#[kani::stub(alloc::fmt::format, stub_format)]
#[kani::stub(crate::compression::compress::compress, stub_compress)]
#[kani::stub(adler2::adler32_slice, stub_adler)]
fn u01_5_write_file_sectored_l3_nocrc_encrypted() {
    write_file_layout(3, 2, false, true, 0, false, kani::any());
}

// @harness unit=U01.5 props=C01,C02 kind=bounded bound="3-byte file in two 2-byte sectors, encrypted with the position-adjusted key at position 0x0123456789AB (the formula for every position is u01_4), stored, checksums off; every byte value; compress = assumed contract instance, adler32 = stand-in" timeout=900 target="builder.rs: write_file (whole function): flags, stored size, offset table, per-sector keys, checksum placement" oracle=build_lookup
#[kani::proof]
#[kani::unwind(5)]
#[kani::stub(alloc::fmt::format, stub_format)]
#[kani::stub(crate::compression::compress::compress, stub_compress)]
#[kani::stub(adler2::adler32_slice, stub_adler)]
fn u01_5_write_file_sectored_l3_nocrc_encrypted_fixkey() {
    write_file_layout(3, 2, false, true, 0, true, 0x0123_4567_89AB);
}

// @harness unit=U01.5 props=C01,C02 kind=bounded bound="3-byte file in two 2-byte sectors, encrypted with the plain name key, stored (selector 0), checksums on, every position; every byte value; compress = assumed contract instance, adler32 = stand-in" timeout=900 target="builder.rs: write_file (whole function): flags, stored size, offset table, per-sector keys, checksum placement" oracle=build_lookup
#[kani::proof]
#[kani::unwind(5)]
#[kani::stub(alloc::fmt::format, stub_format)]
#[kani::stub(crate::compression::compress::compress, stub_compress)]
#[kani::stub(adler2::adler32_slice, stub_adler)]
fn u01_5_write_file_sectored_l3_crc_encrypted() {
    write_file_layout(3, 2, true, true, 0, false, kani::any());
}

// @harness unit=U01.5 props=C01,C02 kind=bounded bound="3-byte file in two 2-byte sectors, encrypted with the position-adjusted key at position 0x0123456789AB (the formula for every position is u01_4), stored, checksums on; every byte value; compress = assumed contract instance, adler32 = stand-in" timeout=900 target="builder.rs: write_file (whole function): flags, stored size, offset table, per-sector keys, checksum placement" oracle=build_lookup
#[kani::proof]
#[kani::unwind(5)]
#[kani::stub(alloc::fmt::format, stub_format)]
#[kani::stub(crate::compression::compress::compress, stub_compress)]
#[kani::stub(adler2::adler32_slice, stub_adler)]
fn u01_5_write_file_sectored_l3_crc_encrypted_fixkey() {
    write_file_layout(3, 2, true, true, 0, true, 0x0123_4567_89AB);
}

// @harness unit=U01.5 props=C01 kind=bounded bound="4-byte file in two 2-byte sectors, encrypted with the plain name key, stored (selector 0), checksums off, every position; every byte value; compress = assumed contract instance, adler32 = stand-in" timeout=900 target="builder.rs: write_file (whole function): flags, stored size, offset table, per-sector keys, checksum placement" oracle=build_lookup
#[kani::proof]
#[kani::unwind(5)]
#[kani::stub(alloc::fmt::format, stub_format)]
#[kani::stub(crate::compression::compress::compress, stub_compress)]
#[kani::stub(adler2::adler32_slice, stub_adler)]
fn u01_5_write_file_sectored_l4_nocrc_encrypted() {
    write_file_layout(4, 2, false, true, 0, false, kani::any());
}

// @harness unit=U01.5 props=C01 kind=bounded bound="4-byte file in two 2-byte sectors, encrypted with the position-adjusted key at position 0x0123456789AB (the formula for every position is u01_4), stored, checksums off; every byte value; compress = assumed contract instance, adler32 = stand-in" timeout=900 target="builder.rs: write_file (whole function): flags, stored size, offset table, per-sector keys, checksum placement" oracle=build_lookup
#[kani::proof]
#[kani::unwind(5)]
#[kani::stub(alloc::fmt::format, stub_format)]
#[kani::stub(crate::compression::compress::compress, stub_compress)]
#[kani::stub(adler2::adler32_slice, stub_adler)]
fn u01_5_write_file_sectored_l4_nocrc_encrypted_fixkey() {
    write_file_layout(4, 2, false, true, 0, true, 0x0123_4567_89AB);
}

// @harness unit=U01.5 props=C01 kind=bounded bound="4-byte file in two 2-byte sectors, encrypted with the plain name key, stored (selector 0), checksums on, every position; every byte value; compress = assumed contract instance, adler32 = stand-in" timeout=900 target="builder.rs: write_file (whole function): flags, stored size, offset table, per-sector keys, checksum placement" oracle=build_lookup
#[kani::proof]
#[kani::unwind(5)]
#[kani::stub(alloc::fmt::format, stub_format)]
#[kani::stub(crate::compression::compress::compress, stub_compress)]
#[kani::stub(adler2::adler32_slice, stub_adler)]
fn u01_5_write_file_sectored_l4_crc_encrypted() {
    write_file_layout(4, 2, true, true, 0, false, kani::any());
}

// @harness unit=U01.5 props=C01 kind=bounded bound="4-byte file in two 2-byte sectors, encrypted with the position-adjusted key at position 0x0123456789AB (the formula for every position is u01_4), stored, checksums on; every byte value; compress = assumed contract instance, adler32 = stand-in" timeout=900 target="builder.rs: write_file (whole function): flags, stored size, offset table, per-sector keys, checksum placement" oracle=build_lookup
#[kani::proof]
#[kani::unwind(5)]
#[kani::stub(alloc::fmt::format, stub_format)]
#[kani::stub(crate::compression::compress::compress, stub_compress)]
#[kani::stub(adler2::adler32_slice, stub_adler)]
fn u01_5_write_file_sectored_l4_crc_encrypted_fixkey() {
    write_file_layout(4, 2, true, true, 0, true, 0x0123_4567_89AB);
}

