//! Harnesses inside builder.rs (private methods of ArchiveBuilder).
use super::*;
use crate::crypto::{hash_string, hash_type};

include!("verif_blocks_builder.rs");

pub fn stub_format(_args: core::fmt::Arguments<'_>) -> String {
    String::new()
}

// @harness unit=U01.4 props=C01,C02 kind=complete timeout=600 target="builder.rs: calculate_file_key (published formula, all positions/sizes/flags; name fixed: its hash is U04)" oracle=mpq_interop
#[kani::proof]
#[kani::unwind(8)]
#[kani::stub(alloc::fmt::format, stub_format)]
fn u01_4_builder_file_key_formula() {
    let b = ArchiveBuilder::new();
    let name = "a\\b.c";
    let base = hash_string(name, hash_type::FILE_KEY);
    let pos: u64 = kani::any();
    let size: u32 = kani::any();
    let flags: u32 = kani::any();
    let key = b.calculate_file_key(name, pos, size, flags);
    let want = if flags & BlockEntry::FLAG_FIX_KEY != 0 { base.wrapping_add(pos as u32) ^ size } else { base };
    assert!(key == want, "file key = hash(name, FILE_KEY), adjusted as (key + file position) ^ file size under FIX_KEY");
    core::mem::forget(b);
}

// @harness unit=U01.3 props=C01 kind=bounded bound="<= 5 pending files (the arithmetic is on the count only)" timeout=600 target="builder.rs: calculate_hash_table_size (power of two, >= 16, >= 2 x entries: a never-used slot always exists)"
#[kani::proof]
#[kani::unwind(8)]
#[kani::stub(alloc::fmt::format, stub_format)]
fn u01_3_hash_table_size_leaves_free_slots() {
    let mut b = ArchiveBuilder::new();
    let n: usize = kani::any();
    kani::assume(n <= 5);
    let mut i = 0;
    while i < n {
        b = b.add_file_data(Vec::new(), "x");
        i += 1;
    }
    let entries = n + 1; // pending files + the generated (listfile)
    let size = b.calculate_hash_table_size();
    assert!(size.is_power_of_two() && size >= 16, "hash table size is a power of two >= 16");
    assert!(size as usize >= 2 * entries, "at least half of the slots stay never-used");
    core::mem::forget(b);
}

// @harness unit=U01.2 props=C01 kind=complete timeout=300 target="builder.rs: calculate_bits_needed (least width that holds the value, all u64)"
#[kani::proof]
#[kani::unwind(4)]
#[kani::stub(alloc::fmt::format, stub_format)]
fn u01_2_bits_needed() {
    let v: u64 = kani::any();
    let bits = ArchiveBuilder::calculate_bits_needed(v);
    assert!(bits >= 1 && bits <= 64);
    assert!(bits == 64 || v < (1u64 << bits), "value fits in the width");
    assert!(bits == 1 || v >= (1u64 << (bits - 1)), "no smaller width fits");
}

// the key statements of write_file (single-unit and sectored branch): the key is derived from the ORIGINAL file size
// @harness unit=U01.4 props=C01,C02 kind=bounded bound="file data <= 6 bytes (only its length enters the key)" timeout=600 target="builder.rs: write_file key statements (E11 blocks)" oracle=mpq_interop
#[kani::proof]
#[kani::unwind(8)]
#[kani::stub(alloc::fmt::format, stub_format)]
fn u01_4_write_file_key_uses_file_size() {
    let b = ArchiveBuilder::new();
    let name = "a\\b.c";
    let base = hash_string(name, hash_type::FILE_KEY);
    let pos: u64 = kani::any();
    let flags: u32 = kani::any();
    let data = [0u8; 6];
    let n: usize = kani::any();
    kani::assume(n <= 6);
    let want = if flags & BlockEntry::FLAG_FIX_KEY != 0 { base.wrapping_add(pos as u32) ^ (n as u32) } else { base };
    assert!(blk_write_file_key_single(&b, name, &pos, &data[..n], flags) == want, "single-unit key uses position and uncompressed size");
    assert!(blk_write_file_key_sectored(&b, name, &pos, &data[..n], flags) == want, "sectored key uses position and uncompressed size");
    core::mem::forget(b);
}

// ------------------------------------------------------------------------------------ U02.4 table serialisation (writer side)
// the plain-text image of a hash entry before encryption: name hashes at +0/+4, locale u16 at +8, platform u16 at +10,
// block index at +12, little-endian; of a block entry: position, compressed size, file size, flags (E11 blocks)
// @harness unit=U02.4 props=C02,C01 kind=bounded bound="tables of 1 entry; every field value" timeout=600 target="builder.rs: write_hash_table / write_block_table serialisation loops (E11 blocks)" oracle=mpq_interop
#[kani::proof]
#[kani::unwind(6)]
#[kani::stub(alloc::fmt::format, stub_format)]
fn u02_4_table_serialize_layout() {
    let mut ht = match HashTable::new(1) { Ok(t) => t, Err(e) => { core::mem::forget(e); return; } };
    let (n1, n2, loc, plat, bi): (u32, u32, u16, u16, u32) = (kani::any(), kani::any(), kani::any(), kani::any(), kani::any());
    {
        let e = ht.get_mut(0).unwrap();
        e.name_1 = n1; e.name_2 = n2; e.locale = loc; e.platform = plat; e.block_index = bi;
    }
    let bytes = match blk_hash_table_serialize(&ht) { Ok(b) => b, Err(e) => { core::mem::forget(e); assert!(false, "serialisation succeeds"); return; } };
    assert!(bytes.len() == 16, "16 bytes per hash entry");
    assert!(bytes[0..4] == n1.to_le_bytes() && bytes[4..8] == n2.to_le_bytes(), "name hashes first");
    assert!(bytes[8..10] == loc.to_le_bytes(), "locale at +8");
    assert!(bytes[10..12] == plat.to_le_bytes(), "platform at +10");
    assert!(bytes[12..16] == bi.to_le_bytes(), "block index at +12");
    core::mem::forget(bytes);
    core::mem::forget(ht);
}

// ------------------------------------------------------------------------------------ U02.5 header layout (V1 / V2)
// The published header: 'MPQ\x1A', header size 32 / 44, 32-bit archive size, format version, sector shift, the four
// table words; V2 adds the 64-bit hi-block table position and the two 16-bit high parts.  Every field at its published
// offset, little-endian, for every parameter value; and MpqHeader::read returns the same values.
fn header_layout(v2: bool) {
    let shift: u16 = kani::any();
    kani::assume(shift <= 15);
    let b = ArchiveBuilder::new().version(if v2 { FormatVersion::V2 } else { FormatVersion::V1 }).block_size(shift);
    let p = HeaderWriteParams { archive_size: kani::any(), hash_table_pos: kani::any(), block_table_pos: kani::any(), hash_table_size: kani::any(),
        block_table_size: kani::any(), hi_block_table_pos: if kani::any() { Some(kani::any()) } else { None }, het_table_pos: None, bet_table_pos: None,
        _het_table_size: None, _bet_table_size: None, v4_data: None };
    let mut buf = [0xAAu8; 48];
    let n = {
        let mut c = std::io::Cursor::new(&mut buf[..]);
        match b.write_header(&mut c, &p) { Ok(()) => {}, Err(e) => { core::mem::forget(e); assert!(false, "header write succeeds"); } }
        c.position() as usize
    };
    let want = if v2 { 44 } else { 32 };
    assert!(n == want, "header has the size of its version");
    let w32 = |o: usize| u32::from_le_bytes([buf[o], buf[o + 1], buf[o + 2], buf[o + 3]]);
    let w16 = |o: usize| u16::from_le_bytes([buf[o], buf[o + 1]]);
    assert!(buf[0] == b'M' && buf[1] == b'P' && buf[2] == b'Q' && buf[3] == 0x1A, "signature");
    assert!(w32(4) == want as u32, "header size field");
    assert!(w32(8) == (if p.archive_size > u32::MAX as u64 { u32::MAX } else { p.archive_size as u32 }), "32-bit archive size (saturated)");
    assert!(w16(12) == (if v2 { 1 } else { 0 }) && w16(14) == shift, "format version and sector shift");
    assert!(w32(16) == p.hash_table_pos as u32 && w32(20) == p.block_table_pos as u32, "low parts of the table positions");
    assert!(w32(24) == p.hash_table_size && w32(28) == p.block_table_size, "table sizes");
    if v2 {
        let hi = u64::from(w32(32)) | (u64::from(w32(36)) << 32);
        assert!(hi == p.hi_block_table_pos.unwrap_or(0), "hi-block table position (0 when there is none)");
        assert!(w16(40) == (p.hash_table_pos >> 32) as u16 && w16(42) == (p.block_table_pos >> 32) as u16, "high 16 bits of the table positions");
    }
    assert!(buf[want] == 0xAA, "nothing beyond the header");
    core::mem::forget(b);
}

// @harness unit=U02.5 props=C02,C01 kind=complete timeout=600 target="builder.rs: write_header, format V1 (every parameter value)" oracle=mpq_interop
#[kani::proof]
#[kani::unwind(8)]
#[kani::stub(alloc::fmt::format, stub_format)]
fn u02_5_header_layout_v1() {
    header_layout(false);
}

// @harness unit=U02.5 props=C02,C01 kind=complete timeout=600 target="builder.rs: write_header, format V2 (every parameter value)" oracle=mpq_interop
#[kani::proof]
#[kani::unwind(8)]
#[kani::stub(alloc::fmt::format, stub_format)]
fn u02_5_header_layout_v2() {
    header_layout(true);
}
