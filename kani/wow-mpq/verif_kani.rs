//! Kani harnesses for wow-mpq, compiled into the real crate (copied into the scratch copy as
//! src/verif_kani.rs by /verif/check).  `// @harness` lines are read by the driver.
#![allow(unused_imports, dead_code)]
use crate::compression::flags;
use crate::security::*;
use crate::tables::{BlockEntry, HashEntry, HashTable};
use crate::*;
use crate::crypto::*;
use crate::path::plain_file_name;
use byteorder::{LittleEndian, ReadBytesExt};
use std::io::Cursor;
use std::io::{Seek, SeekFrom, Write};
use crate::header::FormatVersion;

pub fn stub_format(_args: core::fmt::Arguments<'_>) -> String {
    String::new()
}

fn forget_err<T>(r: Result<T>) -> bool {
    // never drop an Error inside a harness (boxed/String payload drop glue is expensive for CBMC)
    match r {
        Ok(_) => true,
        Err(e) => {
            core::mem::forget(e);
            false
        }
    }
}

// ------------------------------------------------------------------------------------ U03.4
// Everything compress() can emit on its compressed branch (payload c bytes, 1 <= c, c + 1 < n)
// must pass the size/ratio validators of the read path under SecurityLimits::default().
fn accept(c: u64, n: u64, method: u8) -> bool {
    let limits = SecurityLimits::default();
    forget_err(validate_file_bounds(0, n, c, u64::MAX, &limits))
        && forget_err(detect_compression_bomb_patterns(c, n, method, None, &limits))
        && forget_err(validate_decompression_result(n, n, 10))
}

/// class of the recorded finding F2: payloads that shrink by more than the validators' ratio limits
fn f2_class(c: u64, n: u64) -> bool {
    let r = n / c;
    let lim = if c <= 65_536 { 1000 } else if c <= 1_048_576 { 500 } else { 250 };
    r > lim || (c < 100 && n > 10 * 1024 * 1024)
}

// @harness unit=U03.4 props=C03,C01 kind=complete timeout=600 finding=F2 target="security.rs: validate_file_bounds, detect_compression_bomb_patterns, calculate_limit, validate_decompression_result"
#[kani::proof]
#[kani::unwind(4)]
#[kani::stub(alloc::fmt::format, stub_format)]
fn u03_4_accept_compressor_output() {
    let c = kani::any::<u32>() as u64;
    let n = kani::any::<u32>() as u64;
    let method: u8 = kani::any();
    kani::assume(n >= 3 && n <= 100 * 1024 * 1024 && c >= 1 && c <= n - 2);
    assert!(accept(c, n, method), "validators accept what compress() emits");
}

// @harness unit=U03.4 props=C03,C01 kind=complete timeout=600 complement_of=F2 target="security.rs: validators outside the F2 class"
#[kani::proof]
#[kani::unwind(4)]
#[kani::stub(alloc::fmt::format, stub_format)]
fn u03_4_accept_outside_f2() {
    let c = kani::any::<u32>() as u64;
    let n = kani::any::<u32>() as u64;
    let method: u8 = kani::any();
    kani::assume(n >= 3 && n <= 100 * 1024 * 1024 && c >= 1 && c <= n - 2);
    kani::assume(!f2_class(c, n));
    assert!(accept(c, n, method), "validators accept every payload outside the recorded F2 class");
}

// @harness unit=U03.4 props=C03 kind=complete timeout=300 target="security.rs: validate_decompression_result"
#[kani::proof]
#[kani::unwind(4)]
#[kani::stub(alloc::fmt::format, stub_format)]
fn u03_4_result_exact_size_ok() {
    let n: u64 = kani::any();
    let t: u8 = kani::any();
    kani::assume(t <= 100);
    kani::assume(n <= u64::MAX / 100);
    assert!(forget_err(validate_decompression_result(n, n, t)), "exact size is always accepted");
}

// ------------------------------------------------------------------------------------ U02.1
// @harness unit=U02.1 props=C02 kind=complete timeout=120 target="published MPQ constants" oracle=mpq_interop
#[kani::proof]
#[kani::unwind(4)]
#[kani::stub(alloc::fmt::format, stub_format)]
fn u02_1_constants() {
    assert!(BlockEntry::FLAG_IMPLODE == 0x0000_0100);
    assert!(BlockEntry::FLAG_COMPRESS == 0x0000_0200);
    assert!(BlockEntry::FLAG_ENCRYPTED == 0x0001_0000);
    assert!(BlockEntry::FLAG_FIX_KEY == 0x0002_0000);
    assert!(BlockEntry::FLAG_PATCH_FILE == 0x0010_0000);
    assert!(BlockEntry::FLAG_SINGLE_UNIT == 0x0100_0000);
    assert!(BlockEntry::FLAG_DELETE_MARKER == 0x0200_0000);
    assert!(BlockEntry::FLAG_SECTOR_CRC == 0x0400_0000);
    assert!(BlockEntry::FLAG_EXISTS == 0x8000_0000);
    assert!(HashEntry::EMPTY_NEVER_USED == 0xFFFF_FFFF);
    assert!(HashEntry::EMPTY_DELETED == 0xFFFF_FFFE);
    assert!(flags::HUFFMAN == 0x01 && flags::ZLIB == 0x02 && flags::IMPLODE == 0x04 && flags::PKWARE == 0x08);
    assert!(flags::BZIP2 == 0x10 && flags::SPARSE == 0x20 && flags::ADPCM_MONO == 0x40 && flags::ADPCM_STEREO == 0x80);
    assert!(flags::LZMA == 0x12);
    assert!(crypto::hash_type::TABLE_OFFSET == 0x000 && crypto::hash_type::NAME_A == 0x100);
    assert!(crypto::hash_type::NAME_B == 0x200 && crypto::hash_type::FILE_KEY == 0x300 && crypto::hash_type::KEY2_MIX == 0x400);
}

// ------------------------------------------------------------------------------------ U05.2
// @harness unit=U05.2 props=C05,C02 kind=complete timeout=300 target="tables/hash.rs: HashEntry::from_bytes"
#[kani::proof]
#[kani::unwind(5)]
#[kani::stub(alloc::fmt::format, stub_format)]
fn u05_2_hash_entry_from_bytes() {
    let buf: [u8; 20] = kani::any();
    let len: usize = kani::any();
    kani::assume(len <= 20);
    let r = HashEntry::from_bytes(&buf[..len]);
    match r {
        Ok(e) => {
            assert!(len >= 16, "Ok only with 16 bytes");
            assert!(e.name_1 == u32::from_le_bytes([buf[0], buf[1], buf[2], buf[3]]));
            assert!(e.name_2 == u32::from_le_bytes([buf[4], buf[5], buf[6], buf[7]]));
            assert!(e.locale == u16::from_le_bytes([buf[8], buf[9]]));
            assert!(e.platform == u16::from_le_bytes([buf[10], buf[11]]));
            assert!(e.block_index == u32::from_le_bytes([buf[12], buf[13], buf[14], buf[15]]));
        }
        Err(e) => {
            assert!(len < 16, "Err only when shorter than 16 bytes");
            core::mem::forget(e);
        }
    }
}

// @harness unit=U05.2 props=C05,C02 kind=complete timeout=300 target="tables/block.rs: BlockEntry::from_bytes"
#[kani::proof]
#[kani::unwind(5)]
#[kani::stub(alloc::fmt::format, stub_format)]
fn u05_2_block_entry_from_bytes() {
    let buf: [u8; 20] = kani::any();
    let len: usize = kani::any();
    kani::assume(len <= 20);
    let r = BlockEntry::from_bytes(&buf[..len]);
    match r {
        Ok(e) => {
            assert!(len >= 16);
            assert!(e.file_pos == u32::from_le_bytes([buf[0], buf[1], buf[2], buf[3]]));
            assert!(e.compressed_size == u32::from_le_bytes([buf[4], buf[5], buf[6], buf[7]]));
            assert!(e.file_size == u32::from_le_bytes([buf[8], buf[9], buf[10], buf[11]]));
            assert!(e.flags == u32::from_le_bytes([buf[12], buf[13], buf[14], buf[15]]));
        }
        Err(e) => {
            assert!(len < 16);
            core::mem::forget(e);
        }
    }
}

// ------------------------------------------------------------------------------------ U01.3
// @harness unit=U01.3 props=C01,C05 kind=complete timeout=120 target="lib.rs: calculate_sector_size, is_power_of_two"
#[kani::proof]
#[kani::unwind(4)]
#[kani::stub(alloc::fmt::format, stub_format)]
fn u01_3_sector_size_and_pow2() {
    let shift: u16 = kani::any();
    kani::assume(shift <= 22);
    let s = calculate_sector_size(shift);
    assert!(s >= 512 && s.is_power_of_two() && s.trailing_zeros() == 9 + shift as u32);
    let v: u32 = kani::any();
    assert!(is_power_of_two(v) == (v.count_ones() == 1));
}

// ------------------------------------------------------------------------------------ U04.5
// byte-level wrappers with tails: decrypt inverts encrypt for every key and every byte value,
// lengths 0..=N (bounded in length only)
fn tail_roundtrip<const L: usize>() {
    let key: u32 = kani::any();
    let orig: [u8; L] = kani::any();
    let mut a = orig;
    let b = ArchiveBuilder::new();
    b.encrypt_data(&mut a, key);
    core::mem::forget(b);
    let mut t = a;
    decrypt_file_data(&mut a, key);
    assert!(a == orig, "decrypt_file_data inverts encrypt_data");
    crate::tables::verif_decrypt_table_data(&mut t, key);
    assert!(t == orig, "decrypt_table_data inverts encrypt_data");
}

macro_rules! tail_harness {
    ($name:ident, $l:expr) => {
        #[kani::proof]
        #[kani::unwind(12)]
        #[kani::stub(alloc::fmt::format, stub_format)]
        fn $name() {
            tail_roundtrip::<$l>();
        }
    };
}
// @harness unit=U04.5 props=C04 kind=bounded bound="byte length 0" timeout=300 target="builder.rs: encrypt_data; archive.rs: decrypt_file_data; tables/common.rs: decrypt_table_data"
tail_harness!(u04_5_tail_l0, 0);
// @harness unit=U04.5 props=C04 kind=bounded bound="byte length 1" timeout=300 target="encrypt_data/decrypt_file_data/decrypt_table_data"
tail_harness!(u04_5_tail_l1, 1);
// @harness unit=U04.5 props=C04 kind=bounded bound="byte length 2" timeout=300 target="encrypt_data/decrypt_file_data/decrypt_table_data"
tail_harness!(u04_5_tail_l2, 2);
// @harness unit=U04.5 props=C04 kind=bounded bound="byte length 3" timeout=300 target="encrypt_data/decrypt_file_data/decrypt_table_data"
tail_harness!(u04_5_tail_l3, 3);
// @harness unit=U04.5 props=C04 kind=bounded bound="byte length 4" timeout=300 target="encrypt_data/decrypt_file_data/decrypt_table_data"
tail_harness!(u04_5_tail_l4, 4);
// @harness unit=U04.5 props=C04 kind=bounded bound="byte length 5" timeout=300 target="encrypt_data/decrypt_file_data/decrypt_table_data"
tail_harness!(u04_5_tail_l5, 5);
// @harness unit=U04.5 props=C04 kind=bounded bound="byte length 6" timeout=300 target="encrypt_data/decrypt_file_data/decrypt_table_data"
tail_harness!(u04_5_tail_l6, 6);
// @harness unit=U04.5 props=C04 kind=bounded bound="byte length 7" timeout=300 target="encrypt_data/decrypt_file_data/decrypt_table_data"
tail_harness!(u04_5_tail_l7, 7);
// @harness unit=U04.5 props=C04 kind=bounded bound="byte length 9" timeout=600 target="encrypt_data/decrypt_file_data/decrypt_table_data"
tail_harness!(u04_5_tail_l9, 9);
// @harness unit=U04.5 props=C04 kind=bounded bound="byte length 13" tier=thorough timeout=900 target="encrypt_data/decrypt_file_data/decrypt_table_data"
tail_harness!(u04_5_tail_l13, 13);
// @harness unit=U04.5 props=C04 kind=bounded bound="byte length 17" tier=thorough timeout=1200 target="encrypt_data/decrypt_file_data/decrypt_table_data"
tail_harness!(u04_5_tail_l17, 17);

// ------------------------------------------------------------------------------------ E11 blocks
/// E8 proxy for patch_chain::ChainEntry (which owns an Archive): only the field the block reads
pub struct PrioProxy {
    pub priority: i32,
    pub tag: u8,
}
/// proxy for PatchChain in the body of remove_archive: the archive list (path reduced to a tag) and a log of the calls to
/// rebuild_file_map (its contract - the file map is recomputed from the archive list as it is at the call - is assumed)
pub struct ChainSlot {
    pub path: u8,
    pub priority: i32,
}
pub struct ChainProxy {
    pub archives: Vec<ChainSlot>,
    pub rebuilt_with_len: Option<usize>,
}
impl ChainProxy {
    fn rebuild_file_map(&mut self) -> crate::Result<()> {
        self.rebuilt_with_len = Some(self.archives.len());
        Ok(())
    }
}
/// proxy for ChainEntry in the patch application loop of read_patched_file (the loop only logs path and priority)
pub struct ChainSlotP {
    pub path: std::path::PathBuf,
    pub priority: i32,
}
/// one-byte stand-in for MD5 in the patch application loop: the "digest" of a buffer is its first byte (0 when empty)
fn dg(data: &[u8]) -> u8 {
    if data.is_empty() { 0 } else { data[0] }
}
/// an instance of the contract of apply_patch proved by units/mpq_patch.vrs (Ok(r) only if the digest of the base equals
/// md5_before, and then the digest of r equals md5_after; it may also refuse for any other reason)
pub fn model_apply_patch(patch: &crate::patch::PatchFile, base: &[u8]) -> crate::Result<Vec<u8>> {
    let refuse: bool = kani::any();
    if refuse || dg(base) != patch.header.md5_before[0] || patch.header.md5_after[0] == 0 {
        return Err(crate::Error::Crypto(String::new()));
    }
    let mut out = Vec::with_capacity(1);
    out.push(patch.header.md5_after[0]);
    Ok(out)
}
include!("verif_blocks.rs");

fn sorted_desc(v: &Vec<PrioProxy>) -> bool {
    let mut i = 1;
    while i < v.len() {
        if v[i - 1].priority < v[i].priority {
            return false;
        }
        i += 1;
    }
    true
}

fn chain_insert_contract(pos: usize, v: &Vec<PrioProxy>, p: i32) {
    assert!(pos <= v.len(), "insertion index in range");
    let mut i = 0;
    while i < v.len() {
        if i < pos {
            assert!(v[i].priority >= p, "everything before the new archive has priority >= it (earliest added wins ties)");
        } else {
            assert!(v[i].priority < p, "everything after the new archive has strictly lower priority");
        }
        i += 1;
    }
}

fn any_chain(n: usize) -> Vec<PrioProxy> {
    let mut v = Vec::new();
    let mut i = 0;
    while i < n {
        v.push(PrioProxy { priority: kani::any(), tag: i as u8 });
        i += 1;
    }
    v
}

// @harness unit=U08.3 props=C08 kind=bounded bound="chain length <= 4" timeout=600 target="patch_chain.rs: add_archive insertion index (E11 block)"
#[kani::proof]
#[kani::unwind(6)]
#[kani::stub(alloc::fmt::format, stub_format)]
fn u08_3_chain_insert_position() {
    let n: usize = kani::any();
    kani::assume(n <= 4);
    let v = any_chain(n);
    kani::assume(sorted_desc(&v));
    let p: i32 = kani::any();
    let pos = blk_chain_insert_pos(&v, p);
    chain_insert_contract(pos, &v, p);
}

// remove_archive (whole body): the first entry with that path leaves the chain, every other entry keeps its place, and the
// name -> archive map is rebuilt from the list AFTER the removal (no incremental patching of the map); an unknown path changes nothing
// @harness unit=U08.3 props=C08 kind=bounded bound="chain length <= 4, paths reduced to one-byte tags" timeout=600 target="patch_chain.rs: remove_archive (E11 block: whole body; rebuild_file_map as an assumed contract / call log)" oracle=chain_model
#[kani::proof]
#[kani::unwind(7)]
#[kani::stub(alloc::fmt::format, stub_format)]
fn u08_3_chain_remove_rebuilds_map() {
    let n: usize = kani::any();
    kani::assume(n <= 4);
    let tags: [u8; 4] = kani::any();
    let prios: [i32; 4] = kani::any();
    let mut v = Vec::with_capacity(4);
    let mut i = 0;
    while i < n {
        v.push(ChainSlot { path: tags[i], priority: prios[i] });
        i += 1;
    }
    let mut chain = ChainProxy { archives: v, rebuilt_with_len: None };
    let path: u8 = kani::any();
    let mut first = n;
    let mut k = n;
    while k > 0 {
        k -= 1;
        if tags[k] == path { first = k; }
    }
    let r = blk_chain_remove(&mut chain, path);
    match r {
        Ok(removed) => {
            assert!(removed == (first < n), "true exactly when the path was in the chain");
            if removed {
                assert!(chain.archives.len() == n - 1, "one entry leaves");
                assert!(chain.rebuilt_with_len == Some(n - 1), "the file map is rebuilt from the list as it is after the removal");
                let j: usize = kani::any();
                kani::assume(j < n - 1);
                let src = if j < first { j } else { j + 1 };
                assert!(chain.archives[j].path == tags[src] && chain.archives[j].priority == prios[src], "every other archive keeps its relative place");
            } else {
                assert!(chain.archives.len() == n && chain.rebuilt_with_len.is_none(), "an unknown path changes nothing");
            }
        }
        Err(e) => { core::mem::forget(e); assert!(false, "removal does not fail"); }
    }
    core::mem::forget(chain);
}

// read_patched_file, application loop (the `for` statement after `patches.reverse()`; the reversal itself - a 90-byte element swap that
// exhausts CBMC - stays outside the block, so the list is handed over in application order, lowest priority first): every patch is
// applied through apply_patch, none skipped; so Ok(bytes) carries the digest the LAST applied = winning (highest-priority) patch
// declares and every step started from the digest its patch expects - or the read is an error
// @harness unit=U08.4 props=C08 kind=bounded bound="<= 3 patches over one base; MD5 replaced by a one-byte digest, apply_patch by an instance of its proved contract" timeout=900 target="patch_chain.rs: read_patched_file patch application loop (E11 block)" oracle=chain_patch
#[kani::proof]
#[kani::unwind(6)]
#[kani::stub(alloc::fmt::format, stub_format)]
fn u08_4_chain_applies_every_patch() {
    use crate::patch::{PatchFile, PatchHeader, PatchType};
    let n: usize = kani::any();
    kani::assume(n <= 3);
    let before: [u8; 3] = kani::any();
    let after: [u8; 3] = kani::any();
    let sizes_b: [u32; 3] = kani::any();
    let sizes_a: [u32; 3] = kani::any();
    let mut patches = Vec::with_capacity(3);
    let mut i = 0;
    while i < n {
        let mut mb = [0u8; 16];
        let mut ma = [0u8; 16];
        mb[0] = before[i];
        ma[0] = after[i];
        let h = PatchHeader { patch_data_size: 0, size_before: sizes_b[i], size_after: sizes_a[i], md5_before: mb, md5_after: ma, patch_type: PatchType::Copy, xfrm_data_size: 0 };
        patches.push((0usize, PatchFile { header: h, data: Vec::new() }));
        i += 1;
    }
    let mut archives = Vec::with_capacity(1);
    archives.push(ChainSlotP { path: std::path::PathBuf::new(), priority: 0 });
    let base0: u8 = kani::any();
    let mut base = Vec::with_capacity(1);
    base.push(base0);
    let r = blk_chain_apply_patches(&archives, "f", patches, base);
    match r {
        Ok(out) => {
            if n == 0 {
                assert!(out.len() == 1 && out[0] == base0, "no patch: the base itself");
            } else {
                assert!(dg(&out) == after[n - 1], "the bytes returned carry the digest declared by the winning (last applied, highest-priority) patch");
                assert!(base0 == before[0], "the lowest patch was applied to a base with the digest it expects");
                let k: usize = kani::any();
                kani::assume(k < 2 && k + 1 < n);
                assert!(after[k] == before[k + 1], "every patch started from the result of the one below it - none skipped");
            }
            core::mem::forget(out);
        }
        Err(e) => core::mem::forget(e),
    }
    core::mem::forget(archives);
}

// @harness unit=U08.3 props=C08 kind=bounded bound="chain length <= 4" timeout=600 target="patch_chain.rs: set_priority re-insertion index (E11 block)"
#[kani::proof]
#[kani::unwind(6)]
#[kani::stub(alloc::fmt::format, stub_format)]
fn u08_3_chain_reinsert_position() {
    let n: usize = kani::any();
    kani::assume(n <= 4);
    let v = any_chain(n);
    kani::assume(sorted_desc(&v));
    let p: i32 = kani::any();
    let pos = blk_chain_reinsert_pos(&v, p);
    // re-prioritising: the property fixes the tie rule for ADDED archives ("earliest added wins ties"); whether a
    // re-prioritised archive counts as re-added is not stated, so only "the chain stays descending" is required here
    assert!(pos <= v.len(), "insertion index in range");
    let mut i = 0;
    while i < v.len() {
        if i < pos {
            assert!(v[i].priority >= p, "everything before the moved archive has priority >= it");
        } else {
            assert!(v[i].priority <= p, "everything after the moved archive has priority <= it");
        }
        i += 1;
    }
}

// ------------------------------------------------------------------------------------ U08.2 / U05.6 (E11 blocks of apply_bsd0_patch)
// @harness unit=U08.2 props=C08,C05 kind=complete timeout=300 target="patch/apply.rs: apply_bsd0_patch block positions (E11 block, all 64-bit field values)" oracle=bsd0_total
#[kani::proof]
#[kani::unwind(4)]
#[kani::stub(alloc::fmt::format, stub_format)]
fn u08_2_bsd0_block_positions() {
    let ctrl: usize = kani::any();
    let data: usize = kani::any();
    let buf: [u8; 64] = kani::any();
    let len: usize = kani::any();
    kani::assume(len <= 64);
    match blk_bsd0_block_positions(ctrl, data, &buf[..len]) {
        Ok((c, d, e)) => {
            assert!(c == 32 && c <= d && d <= e && e <= len, "block positions are ordered and inside the buffer");
            assert!(d - c == ctrl && e - d == data, "block sizes are the header fields");
        }
        Err(e) => core::mem::forget(e),
    }
}

// @harness unit=U08.2 props=C08,C05 kind=bounded bound="bsdiff buffer 50 bytes (header + 1 control triple + 6 payload bytes), output <= 6 bytes, base <= 4 bytes; all field values" timeout=900 target="patch/apply.rs: apply_bsd0_patch control loop (E11 block)" oracle=bsd0_total
#[kani::proof]
#[kani::unwind(8)]
#[kani::stub(alloc::fmt::format, stub_format)]
fn u08_2_bsd0_apply_ctrl() {
    let buf: [u8; 50] = kani::any();
    let data_start: usize = kani::any();
    let extra_start: usize = kani::any();
    kani::assume(32 <= data_start && data_start <= extra_start && extra_start <= 50 && data_start <= 44);
    let new_size: usize = kani::any();
    kani::assume(new_size <= 6);
    let base: [u8; 4] = kani::any();
    let blen: usize = kani::any();
    kani::assume(blen <= 4);
    match blk_bsd0_apply_ctrl(&buf, 32, data_start, extra_start, data_start - 32, new_size, &base[..blen]) {
        Ok(v) => assert!(v.len() == new_size, "Ok output has the declared size"),
        Err(e) => core::mem::forget(e),
    }
}

// @harness unit=U08.3 props=C08 kind=bounded bound="chain length <= 4" timeout=600 target="patch_chain.rs: add_archives_parallel insertion index (E11 block)"
#[kani::proof]
#[kani::unwind(6)]
#[kani::stub(alloc::fmt::format, stub_format)]
fn u08_3_chain_parallel_insert_position() {
    let n: usize = kani::any();
    kani::assume(n <= 4);
    let v = any_chain(n);
    kani::assume(sorted_desc(&v));
    let e = PrioProxy { priority: kani::any(), tag: 99 };
    let pos = blk_chain_parallel_insert_pos(&v, &e);
    chain_insert_contract(pos, &v, e.priority);
}

// from_archives_parallel: the initial ordering is descending by priority and stable (earliest listed wins ties)
// @harness unit=U08.3 props=C08 kind=bounded bound="3 archives" timeout=900 target="patch_chain.rs: from_archives_parallel ordering (E11 block)"
#[kani::proof]
#[kani::unwind(6)]
#[kani::stub(alloc::fmt::format, stub_format)]
fn u08_3_chain_parallel_sort_stable() {
    let mut v = any_chain(3);
    blk_chain_parallel_sort(&mut v);
    assert!(v.len() == 3);
    assert!(sorted_desc(&v), "descending by priority");
    let mut i = 1;
    while i < 3 {
        if v[i - 1].priority == v[i].priority {
            assert!(v[i - 1].tag < v[i].tag, "equal priorities keep their listed order");
        }
        i += 1;
    }
}

// ------------------------------------------------------------------------------------ U02.3 table keys and file keys (E11 blocks)
// @harness unit=U02.3 props=C02,C01 kind=complete timeout=300 target="builder.rs write_hash_table/write_block_table, tables/hash.rs + tables/block.rs read: key statements (E11 blocks) equal the published table keys" oracle=mpq_interop
#[kani::proof]
#[kani::unwind(16)]
#[kani::stub(alloc::fmt::format, stub_format)]
fn u02_3_table_keys_are_the_published_ones() {
    assert!(blk_key_builder_hash() == 0xC3AF_3770, "builder encrypts the hash table with hash(\"(hash table)\", FILE_KEY) = 0xC3AF3770");
    assert!(blk_key_builder_block() == 0xEC83_B3A3, "builder encrypts the block table with hash(\"(block table)\", FILE_KEY) = 0xEC83B3A3");
    assert!(blk_key_reader_hash() == 0xC3AF_3770, "reader decrypts the hash table with the published key");
    assert!(blk_key_reader_block() == 0xEC83_B3A3, "reader decrypts the block table with the published key");
}

// @harness unit=U02.3 props=C02,C01 kind=complete timeout=600 target="archive.rs: read_file key computation (E11 block): published formula, all positions/sizes/flags (name fixed: its hash is U04)" oracle=mpq_interop
#[kani::proof]
#[kani::unwind(8)]
#[kani::stub(alloc::fmt::format, stub_format)]
fn u02_3_reader_file_key_formula() {
    // published format: the base key is the hash of the PLAIN name (after the last separator of either kind);
    // the reader is handed the caller's spelling, here with a forward slash
    let name = "a/b.c";
    let base = hash_string("b.c", hash_type::FILE_KEY);
    let flags: u32 = kani::any();
    let archive_offset: u64 = kani::any();
    let rel: u64 = kani::any();
    kani::assume(archive_offset <= (1u64 << 40) && rel <= (1u64 << 40));
    let size: u32 = kani::any();
    let fi = crate::archive::FileInfo { filename: String::new(), hash_index: 0, block_index: 0, file_pos: archive_offset + rel,
                                        compressed_size: 0, file_size: 0, flags, locale: 0 };
    let key = blk_reader_file_key(&fi, archive_offset, name, size);
    let want = if flags & BlockEntry::FLAG_ENCRYPTED == 0 { 0 }
               else if flags & BlockEntry::FLAG_FIX_KEY != 0 { base.wrapping_add(rel as u32) ^ size }
               else { base };
    assert!(key == want, "file key = hash(name, FILE_KEY), adjusted as (key + file position) ^ file size under FIX_KEY");
    core::mem::forget(fi);
}

// two control triples: the old-file cursor may already lie beyond the base when the second block starts (bsdiff allows a
// seek past the end; the combine step then simply has nothing to add) - no panic, and an Ok output has the declared size
// @harness unit=U08.2 props=C08,C05 kind=bounded bound="bsdiff buffer 62 bytes (header + 2 control triples + 6 payload bytes), output <= 4 bytes, base <= 2 bytes; all field values" timeout=900 target="patch/apply.rs: apply_bsd0_patch control loop (E11 block), two control blocks" oracle=bsd0_total
#[kani::proof]
#[kani::unwind(8)]
#[kani::stub(alloc::fmt::format, stub_format)]
fn u08_2_bsd0_apply_ctrl_two() {
    let buf: [u8; 62] = kani::any();
    let extra_start: usize = kani::any();
    kani::assume(56 <= extra_start && extra_start <= 62);
    let new_size: usize = kani::any();
    kani::assume(new_size <= 4);
    let base: [u8; 2] = kani::any();
    let blen: usize = kani::any();
    kani::assume(blen <= 2);
    match blk_bsd0_apply_ctrl(&buf, 32, 56, extra_start, 24, new_size, &base[..blen]) {
        Ok(v) => assert!(v.len() == new_size, "Ok output has the declared size"),
        Err(e) => core::mem::forget(e),
    }
}

// ------------------------------------------------------------------------------------ U02.4 table (de)serialisation layout
// HashTable::from_bytes: the table is decrypted with the published key and entry i is decoded with the published layout
// (name hashes at +0/+4, locale u16 at +8, platform u16 at +10, block index at +12) - whatever decoder the reader uses
// @harness unit=U02.4 props=C02,C01 kind=bounded bound="table of 1 entry (16 bytes); every byte value" timeout=600 target="tables/hash.rs: HashTable::from_bytes (decrypt + entry layout)" oracle=build_lookup
#[kani::proof]
#[kani::unwind(20)]
#[kani::stub(alloc::fmt::format, stub_format)]
fn u02_4_hash_table_from_bytes_layout() {
    let raw: [u8; 16] = kani::any();
    let t = match HashTable::from_bytes(&raw, 1) {
        Ok(t) => t,
        Err(e) => {
            core::mem::forget(e);
            assert!(false, "16 bytes form a one-entry table");
            return;
        }
    };
    let mut w = [u32::from_le_bytes([raw[0], raw[1], raw[2], raw[3]]), u32::from_le_bytes([raw[4], raw[5], raw[6], raw[7]]),
        u32::from_le_bytes([raw[8], raw[9], raw[10], raw[11]]), u32::from_le_bytes([raw[12], raw[13], raw[14], raw[15]])];
    decrypt_block(&mut w, 0xC3AF_3770);
    let e = &t.entries()[0];
    assert!(e.name_1 == w[0] && e.name_2 == w[1], "name hashes are dwords 0 and 1");
    assert!(e.locale == (w[2] & 0xFFFF) as u16, "locale is the low half of dword 2 (bytes +8, +9)");
    assert!(e.platform == (w[2] >> 16) as u16, "platform is the high half of dword 2 (bytes +10, +11)");
    assert!(e.block_index == w[3], "block index is dword 3");
    core::mem::forget(t);
}

// ------------------------------------------------------------------------------------ U02.5 header reader (V1 / V2)
// MpqHeader::read decodes every V1/V2 field from its published offset (whatever validation it applies first)
// @harness unit=U02.5 props=C02,C01,C05 kind=complete timeout=900 target="header.rs: MpqHeader::read_with_limits, formats V1 and V2 (48 symbolic bytes)" oracle=mpq_interop
#[kani::proof]
#[kani::unwind(8)]
#[kani::stub(alloc::fmt::format, stub_format)]
fn u02_5_header_read_layout() {
    use crate::header::{FormatVersion, MpqHeader};
    let buf: [u8; 48] = kani::any();
    kani::assume(buf[12] <= 1 && buf[13] == 0);   // format version word 0 or 1
    let mut c = Cursor::new(&buf[..]);
    match MpqHeader::read(&mut c) {
        Ok(h) => {
            let w32 = |o: usize| u32::from_le_bytes([buf[o], buf[o + 1], buf[o + 2], buf[o + 3]]);
            let w16 = |o: usize| u16::from_le_bytes([buf[o], buf[o + 1]]);
            assert!(buf[0] == b'M' && buf[1] == b'P' && buf[2] == b'Q' && buf[3] == 0x1A, "only the published signature is accepted");
            assert!(h.header_size == w32(4) && h.archive_size == w32(8) && h.block_size == w16(14), "size fields and sector shift");
            assert!((h.format_version == FormatVersion::V2) == (buf[12] == 1), "format version word");
            assert!(h.hash_table_pos == w32(16) && h.block_table_pos == w32(20) && h.hash_table_size == w32(24) && h.block_table_size == w32(28), "table words");
            if buf[12] == 1 {
                let hi = u64::from(w32(32)) | (u64::from(w32(36)) << 32);
                assert!(h.hi_block_table_pos == Some(hi) && h.hash_table_pos_hi == Some(w16(40)) && h.block_table_pos_hi == Some(w16(42)), "V2 words");
            } else {
                assert!(h.hi_block_table_pos.is_none() && h.hash_table_pos_hi.is_none(), "V1 has no extended words");
            }
            core::mem::forget(h);
        }
        Err(e) => core::mem::forget(e),
    }
}


// ------------------------------------------------------------------------------------ U02.6 header reader (V3 / V4) and editor header writer
// MpqHeader::read decodes the extended words from their published offsets: 64-bit archive size +0x2C, BET position +0x34,
// HET position +0x3C; with a 208-byte header the five 64-bit sizes at +0x44, raw chunk size at +0x6C, six digests from +0x70.
fn header_read_v34(buf: &[u8], v4: bool) {
    use crate::header::MpqHeader;
    let mut c = Cursor::new(buf);
    match MpqHeader::read(&mut c) {
        Ok(h) => {
            let w32 = |o: usize| u32::from_le_bytes([buf[o], buf[o + 1], buf[o + 2], buf[o + 3]]);
            let w16 = |o: usize| u16::from_le_bytes([buf[o], buf[o + 1]]);
            let w64 = |o: usize| u64::from(w32(o)) | (u64::from(w32(o + 4)) << 32);
            assert!(buf[0] == b'M' && buf[1] == b'P' && buf[2] == b'Q' && buf[3] == 0x1A, "only the published signature is accepted");
            assert!(h.header_size == w32(4) && h.archive_size == w32(8) && h.block_size == w16(14), "size fields and sector shift");
            assert!(h.hash_table_pos == w32(16) && h.block_table_pos == w32(20) && h.hash_table_size == w32(24) && h.block_table_size == w32(28), "table words");
            assert!(h.hi_block_table_pos == Some(w64(32)) && h.hash_table_pos_hi == Some(w16(40)) && h.block_table_pos_hi == Some(w16(42)), "V2 words");
            assert!(h.archive_size_64 == Some(w64(0x2C)), "64-bit archive size at +0x2C");
            assert!(h.bet_table_pos == Some(w64(0x34)), "BET table position at +0x34");
            assert!(h.het_table_pos == Some(w64(0x3C)), "HET table position at +0x3C");
            if v4 {
                assert!((w32(4) >= 208) == h.v4_data.is_some(), "the V4 words are read exactly when the header declares 208 bytes");
                if let Some(d) = &h.v4_data {
                    assert!(d.hash_table_size_64 == w64(0x44) && d.block_table_size_64 == w64(0x4C) && d.hi_block_table_size_64 == w64(0x54), "sizes of hash, block, hi-block table");
                    assert!(d.het_table_size_64 == w64(0x5C) && d.bet_table_size_64 == w64(0x64) && d.raw_chunk_size == w32(0x6C), "sizes of HET, BET table, raw chunk size");
                    let j: usize = kani::any();
                    kani::assume(j < 16);
                    assert!(d.md5_block_table[j] == buf[0x70 + j] && d.md5_hash_table[j] == buf[0x80 + j] && d.md5_hi_block_table[j] == buf[0x90 + j], "digests of block, hash, hi-block table");
                    assert!(d.md5_bet_table[j] == buf[0xA0 + j] && d.md5_het_table[j] == buf[0xB0 + j] && d.md5_mpq_header[j] == buf[0xC0 + j], "digests of BET, HET table, header");
                }
            }
            core::mem::forget(h);
        }
        Err(e) => core::mem::forget(e),
    }
}

// @harness unit=U02.6 props=C02,C01,C05 kind=complete timeout=900 target="header.rs: MpqHeader::read_with_limits, format V3 with a 68..207-byte header (72 symbolic bytes)" oracle=mpq_interop
#[kani::proof]
#[kani::unwind(18)]
#[kani::stub(alloc::fmt::format, stub_format)]
fn u02_6_header_read_layout_v3() {
    let buf: [u8; 72] = kani::any();
    kani::assume(buf[12] == 2 && buf[13] == 0);
    kani::assume(u32::from_le_bytes([buf[4], buf[5], buf[6], buf[7]]) < 208);
    header_read_v34(&buf[..], false);
}

// @harness unit=U02.6 props=C02,C01,C05 kind=complete timeout=1200 target="header.rs: MpqHeader::read_with_limits, formats V3/V4 with any declared header size (212 symbolic bytes)" oracle=mpq_interop
#[kani::proof]
#[kani::unwind(18)]
#[kani::stub(alloc::fmt::format, stub_format)]
fn u02_6_header_read_layout_v4() {
    let buf: [u8; 212] = kani::any();
    kani::assume((buf[12] == 2 || buf[12] == 3) && buf[13] == 0);
    header_read_v34(&buf[..], true);
}

// MutableArchive::update_header (E11 block: the `if needs_update { .. }` statement, self.file -> an in-memory cursor): the
// rewritten header carries every field of the (updated) header at its published offset - what MpqHeader::read decodes.
// @harness unit=U02.6 props=C06,C02 kind=complete timeout=900 target="modification.rs: update_header, header emission statement (E11 block), V1-V3 headers, every field value" oracle=mod_model
#[kani::proof]
#[kani::unwind(18)]
#[kani::stub(alloc::fmt::format, stub_format)]
fn u02_6_editor_header_layout() {
    use crate::header::{FormatVersion, MpqHeader};
    let ver: u8 = kani::any();
    kani::assume(ver <= 2);
    let fv = if ver == 0 { FormatVersion::V1 } else if ver == 1 { FormatVersion::V2 } else { FormatVersion::V3 };
    let opt64 = |present: bool| -> Option<u64> { if present { Some(kani::any()) } else { None } };
    let h = MpqHeader { header_size: kani::any(), archive_size: kani::any(), format_version: fv, block_size: kani::any(), hash_table_pos: kani::any(),
        block_table_pos: kani::any(), hash_table_size: kani::any(), block_table_size: kani::any(),
        hi_block_table_pos: if ver >= 1 { Some(kani::any()) } else { None }, hash_table_pos_hi: if ver >= 1 { Some(kani::any()) } else { None },
        block_table_pos_hi: if ver >= 1 { Some(kani::any()) } else { None }, archive_size_64: if ver >= 2 { Some(kani::any()) } else { None },
        bet_table_pos: if ver >= 2 { Some(kani::any()) } else { None }, het_table_pos: if ver >= 2 { Some(kani::any()) } else { None }, v4_data: None };
    let upd_hash = opt64(kani::any());
    let upd_block = opt64(kani::any());
    let upd_het = opt64(ver >= 2 && kani::any());
    let upd_bet = opt64(ver >= 2 && kani::any());
    // in-place positions stay below 4 GiB (the editor keeps the high words of the original header)
    if let Some(x) = upd_hash { kani::assume(x <= u32::MAX as u64); }
    if let Some(x) = upd_block { kani::assume(x <= u32::MAX as u64); }
    let mut buf = [0xAAu8; 72];
    let n = {
        let mut c = Cursor::new(&mut buf[..]);
        match blk_editor_header_emit(&mut c, 0, &h, true, upd_hash, upd_block, upd_het, upd_bet) { Ok(()) => {}, Err(e) => { core::mem::forget(e); assert!(false, "writing into a large enough buffer succeeds"); } }
        c.position() as usize
    };
    let want = if ver == 0 { 32 } else if ver == 1 { 44 } else { 68 };
    assert!(n == want, "the header bytes of its version are written");
    let w32 = |o: usize| u32::from_le_bytes([buf[o], buf[o + 1], buf[o + 2], buf[o + 3]]);
    let w16 = |o: usize| u16::from_le_bytes([buf[o], buf[o + 1]]);
    let w64 = |o: usize| u64::from(w32(o)) | (u64::from(w32(o + 4)) << 32);
    assert!(buf[0] == b'M' && buf[1] == b'P' && buf[2] == b'Q' && buf[3] == 0x1A, "signature");
    assert!(w32(4) == h.header_size && w32(8) == h.archive_size && w16(12) == ver as u16 && w16(14) == h.block_size, "size fields, version, sector shift");
    assert!(w32(16) == upd_hash.map(|x| x as u32).unwrap_or(h.hash_table_pos) && w32(20) == upd_block.map(|x| x as u32).unwrap_or(h.block_table_pos), "table positions (updated ones win)");
    assert!(w32(24) == h.hash_table_size && w32(28) == h.block_table_size, "table sizes");
    if ver >= 1 {
        assert!(w64(32) == h.hi_block_table_pos.unwrap_or(0) && w16(40) == h.hash_table_pos_hi.unwrap_or(0) && w16(42) == h.block_table_pos_hi.unwrap_or(0), "V2 words");
    }
    if ver >= 2 {
        assert!(w64(0x2C) == h.archive_size_64.unwrap_or(0), "64-bit archive size at +0x2C");
        assert!(w64(0x34) == upd_bet.or(h.bet_table_pos).unwrap_or(0), "BET table position at +0x34 (updated one wins)");
        assert!(w64(0x3C) == upd_het.or(h.het_table_pos).unwrap_or(0), "HET table position at +0x3C (updated one wins)");
    }
    assert!(buf[want] == 0xAA, "nothing beyond the header");
    core::mem::forget(h);
}

// ------------------------------------------------------------------------------------ U06.4 editor file key (F29)
// MutableArchive::prepare_file_data: the key an added file is encrypted with is the published one for the flags the block
// entry receives - hash of the plain name, adjusted by (key + position) ^ uncompressed size exactly when FIX_KEY is set.
// @harness unit=U06.4 props=C06,C02 kind=complete timeout=600 target="modification.rs: prepare_file_data key statements + flag statements (E11 blocks), all positions / lengths <= 3 / option values; name fixed" oracle=mod_options
#[kani::proof]
#[kani::unwind(8)]
#[kani::stub(alloc::fmt::format, stub_format)]
fn u06_4_editor_file_key_formula() {
    let name = "a\\b.c";
    let base = hash_string("b.c", hash_type::FILE_KEY);
    let mut o = crate::modification::AddFileOptions::new();
    o.fix_key = kani::any();
    o.encrypt = true;
    let pos: u32 = kani::any();
    let data: [u8; 3] = kani::any();
    let n: usize = kani::any();
    kani::assume(n <= 3);
    let key = blk_editor_file_key(name, &o, pos, &data[..n]);
    let flags0: u32 = kani::any();
    kani::assume(flags0 & (BlockEntry::FLAG_ENCRYPTED | BlockEntry::FLAG_FIX_KEY) == 0);
    let flags = blk_editor_key_flags(&o, flags0);
    assert!(flags & BlockEntry::FLAG_ENCRYPTED != 0, "ENCRYPTED set");
    assert!((flags & BlockEntry::FLAG_FIX_KEY != 0) == o.fix_key, "FIX_KEY iff requested");
    assert!(flags & !(BlockEntry::FLAG_ENCRYPTED | BlockEntry::FLAG_FIX_KEY) == flags0, "no other flag touched");
    let want = if flags & BlockEntry::FLAG_FIX_KEY != 0 { base.wrapping_add(pos) ^ (n as u32) } else { base };
    assert!(key == want, "key = hash(plain name), adjusted as (key + position) ^ uncompressed size exactly when the FIX_KEY flag is written");
    core::mem::forget(o);
}
