//! Harnesses inside tables::bet (private bit reader of BetTable).
use super::*;

pub fn stub_format(_args: core::fmt::Arguments<'_>) -> String {
    String::new()
}

fn zero_header() -> BetHeader {
    BetHeader { table_size: 0, file_count: 0, unknown_08: 0, table_entry_size: 0, bit_index_file_pos: 0, bit_index_file_size: 0, bit_index_cmp_size: 0,
        bit_index_flag_index: 0, bit_index_unknown: 0, bit_count_file_pos: 0, bit_count_file_size: 0, bit_count_cmp_size: 0, bit_count_flag_index: 0,
        bit_count_unknown: 0, total_bet_hash_size: 0, bet_hash_size_extra: 0, bet_hash_size: 0, bet_hash_array_size: 0, flag_count: 0 }
}

// The BET bit reader on untrusted positions / widths (they come from the table header): never panics (no shift overflow,
// no index outside the file table), refuses what does not fit, and for a field that fits into 64 bits after its in-byte
// shift returns exactly the addressed bits.
// @harness unit=U05.7 props=C05 kind=bounded bound="file table of 12 bytes; every bit position and every width 0..=u32::MAX" timeout=900 target="tables/bet.rs: BetTable::read_bits_from_table"
#[kani::proof]
#[kani::unwind(12)]
#[kani::stub(alloc::fmt::format, stub_format)]
fn u05_7_bet_read_bits_total() {
    let bytes: [u8; 12] = kani::any();
    let t = BetTable { header: zero_header(), file_flags: Vec::new(), file_table: bytes.to_vec(), bet_hashes: Vec::new() };
    let pos: usize = kani::any();
    let count: u32 = kani::any();
    let r = t.read_bits_from_table(pos, count);
    if count == 0 {
        assert!(r == Some(0), "zero width reads 0");
    } else if count > 64 {
        assert!(r.is_none(), "more than 64 bits is refused");
    } else if let Some(v) = r {
        assert!(pos / 8 < 12, "an accepted field starts inside the table");
        if (pos % 8) as u32 + count <= 64 {
            // bit j of the result is bit (pos + j) of the table, little-endian bit order
            let j: u32 = kani::any();
            kani::assume(j < count);
            let abs = pos + j as usize;
            assert!(abs / 8 < 12, "every addressed bit lies inside the table");
            let want = (bytes[abs / 8] >> (abs % 8)) & 1;
            assert!(((v >> j) & 1) as u8 == want, "bit j of the value is bit pos+j of the table");
            if count < 64 {
                assert!(v >> count == 0, "nothing above the requested width");
            }
        }
    }
    core::mem::forget(t);
}
