//! Kani harnesses for wow-wmo (copied into the scratch copy as src/verif_kani.rs by /verif/check).
#![allow(unused_imports, dead_code)]
use crate::chunk::ChunkHeader;
use crate::types::{ChunkId, Color};
use crate::wmo_types::WmoPortalReference;

include!("verif_blocks.rs");

/// stand-ins for `wmo.header.ambient_color` in the colour-packing statement of write_header
pub struct HdrColorInner { pub ambient_color: Color }
pub struct HdrColor { pub header: HdrColorInner }

fn stub_format(_args: core::fmt::Arguments<'_>) -> String {
    String::new()
}

// The contract units/wmo_writer.vrs trusts for ChunkHeader::write (`header_bytes`): 8 bytes, the identifier
// reversed, then the size little-endian; and ChunkHeader::read inverts it.  Loop-free over all 2^64 headers.
// @harness unit=U15.3 props=C15 kind=complete timeout=300 target="chunk.rs: ChunkHeader::write, ChunkHeader::read" oracle=wmo_roundtrip
#[kani::proof]
#[kani::unwind(10)]
#[kani::stub(alloc::fmt::format, stub_format)]
fn u15_3_chunk_header_codec() {
    let id: [u8; 4] = kani::any();
    let size: u32 = kani::any();
    let h = ChunkHeader { id: ChunkId(id), size };
    let mut buf = [0xAAu8; 12];
    {
        let mut sink: &mut [u8] = &mut buf[..];
        assert!(h.write(&mut sink).is_ok(), "header write succeeds on a large enough sink");
        assert!(sink.len() == 4, "exactly 8 bytes are written");
    }
    let i: usize = kani::any();
    kani::assume(i < 4);
    assert!(buf[i] == id[3 - i], "identifier bytes are stored reversed");
    assert!(buf[4 + i] == (size >> (8 * i as u32)) as u8, "size is stored little-endian");
    assert!(buf[8 + i] == 0xAA, "nothing after the header is touched");
    let mut src: &[u8] = &buf[..8];
    let back = ChunkHeader::read(&mut src);
    assert!(back.is_ok(), "the written header parses");
    let back = back.unwrap();
    assert!(back.id.0[i] == id[i], "identifier survives write->read");
    assert!(back.size == size, "size survives write->read");
    assert!(src.is_empty(), "read consumes exactly 8 bytes");
}

// short input is an error, not a panic
// @harness unit=U15.3 props=C15,C05 kind=complete timeout=300 target="chunk.rs: ChunkHeader::read" oracle=wmo_roundtrip
#[kani::proof]
#[kani::unwind(10)]
#[kani::stub(alloc::fmt::format, stub_format)]
fn u15_3_chunk_header_short_input() {
    let buf: [u8; 8] = kani::any();
    let n: usize = kani::any();
    kani::assume(n < 8);
    let mut src: &[u8] = &buf[..n];
    assert!(ChunkHeader::read(&mut src).is_err(), "fewer than 8 bytes is rejected");
}

// MOHD ambient colour: the packed dword is laid out B,G,R,A in the file (little-endian), and the parser's unpacking
// statement inverts the writer's packing statement for every colour (two E11 blocks, loop-free, all 2^32 colours)
// @harness unit=U15.4 props=C15 kind=complete timeout=120 target="writer.rs: write_header colour packing (E11 block); parser.rs: parse_header colour unpacking (E11 block)" oracle=wmo_roundtrip
#[kani::proof]
#[kani::unwind(4)]
#[kani::stub(alloc::fmt::format, stub_format)]
fn u15_4_mohd_color_codec() {
    let c = Color { r: kani::any(), g: kani::any(), b: kani::any(), a: kani::any() };
    let w = HdrColor { header: HdrColorInner { ambient_color: c } };
    let packed = blk_mohd_color_pack(&w);
    let le = packed.to_le_bytes();
    assert!(le[0] == c.b && le[1] == c.g && le[2] == c.r && le[3] == c.a, "ambient colour is stored as B,G,R,A");
    let back = blk_mohd_color_unpack(packed);
    assert!(back.r == c.r && back.g == c.g && back.b == c.b && back.a == c.a, "ambient colour survives write -> parse");
}

// MOPR: 8 bytes per reference, three little-endian u16 (portal, group, side) and a pad word; every full entry is parsed
// @harness unit=U15.5 props=C15 kind=bounded bound="chunk payloads of 0, 7 and 17 bytes (0, 0 and 2 references plus a partial entry); every byte value" timeout=600 target="parser.rs: parse_portal_references entry loop (E11 block)" oracle=wmo_roundtrip
#[kani::proof]
#[kani::unwind(20)]
#[kani::stub(alloc::fmt::format, stub_format)]
fn u15_5_portal_refs_parse() {
    let bytes: [u8; 17] = kani::any();
    // concrete payload lengths (a symbolic Vec length exhausts CBMC): empty, short of one entry, two entries + 1 byte
    let k: u8 = kani::any();
    let n: usize = if k % 3 == 0 { 0 } else if k % 3 == 1 { 7 } else { 17 };
    let refs = if n == 0 { blk_parse_portal_refs(Vec::new()) } else if n == 7 { blk_parse_portal_refs(bytes[..7].to_vec()) } else { blk_parse_portal_refs(bytes[..17].to_vec()) };
    assert!(refs.len() == n / 8, "one reference per full 8 bytes");
    let i: usize = kani::any();
    kani::assume(i < refs.len());
    let o = 8 * i;
    assert!(refs[i].portal_index == u16::from_le_bytes([bytes[o], bytes[o + 1]]), "portal index");
    assert!(refs[i].group_index == u16::from_le_bytes([bytes[o + 2], bytes[o + 3]]), "group index");
    assert!(refs[i].side == u16::from_le_bytes([bytes[o + 4], bytes[o + 5]]), "side is the full 16-bit word");
    core::mem::forget(refs);
}
