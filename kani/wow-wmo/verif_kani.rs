//! Kani harnesses for wow-wmo (copied into the scratch copy as src/verif_kani.rs by /verif/check).
use crate::chunk::ChunkHeader;
use crate::types::ChunkId;

fn stub_format(_args: core::fmt::Arguments<'_>) -> String {
    String::new()
}

// The contract units/wmo_writer.vrs trusts for ChunkHeader::write (`header_bytes`): 8 bytes, the identifier
// reversed, then the size little-endian; and ChunkHeader::read inverts it.  Loop-free over all 2^64 headers.
// @harness unit=U15.3 props=C15 kind=complete timeout=300 target="chunk.rs: ChunkHeader::write, ChunkHeader::read" oracle=wmo_roundtrip
#[kani::proof]
#[kani::unwind(10)]
#[kani::stub(alloc::fmt::format, stub_format)]
fn u15_3_chunk_header_codec() {
    let id: [u8; 4] = kani::any();
    let size: u32 = kani::any();
    let h = ChunkHeader { id: ChunkId(id), size };
    let mut buf = [0xAAu8; 12];
    {
        let mut sink: &mut [u8] = &mut buf[..];
        assert!(h.write(&mut sink).is_ok(), "header write succeeds on a large enough sink");
        assert!(sink.len() == 4, "exactly 8 bytes are written");
    }
    let i: usize = kani::any();
    kani::assume(i < 4);
    assert!(buf[i] == id[3 - i], "identifier bytes are stored reversed");
    assert!(buf[4 + i] == (size >> (8 * i as u32)) as u8, "size is stored little-endian");
    assert!(buf[8 + i] == 0xAA, "nothing after the header is touched");
    let mut src: &[u8] = &buf[..8];
    let back = ChunkHeader::read(&mut src);
    assert!(back.is_ok(), "the written header parses");
    let back = back.unwrap();
    assert!(back.id.0[i] == id[i], "identifier survives write->read");
    assert!(back.size == size, "size survives write->read");
    assert!(src.is_empty(), "read consumes exactly 8 bytes");
}

// short input is an error, not a panic
// @harness unit=U15.3 props=C15,C05 kind=complete timeout=300 target="chunk.rs: ChunkHeader::read" oracle=wmo_roundtrip
#[kani::proof]
#[kani::unwind(10)]
#[kani::stub(alloc::fmt::format, stub_format)]
fn u15_3_chunk_header_short_input() {
    let buf: [u8; 8] = kani::any();
    let n: usize = kani::any();
    kani::assume(n < 8);
    let mut src: &[u8] = &buf[..n];
    assert!(ChunkHeader::read(&mut src).is_err(), "fewer than 8 bytes is rejected");
}
