//! Harnesses inside wow-wmo writer.rs (private chunk writers of WmoWriter), copied into the scratch copy as
//! src/verif_kani_writer.rs by /verif/check.  Pattern: symbolic items -> real writer into a fixed slice sink ->
//! the chunk header declares exactly the payload bytes written and every field sits at its published offset.
#![allow(unused_imports, dead_code)]
use super::*;
use crate::types::ChunkId;
use crate::wmo_types::{WmoLightProperties, WmoLightType};

fn stub_format(_args: core::fmt::Arguments<'_>) -> String {
    String::new()
}

fn w32(b: &[u8], o: usize) -> u32 {
    u32::from_le_bytes([b[o], b[o + 1], b[o + 2], b[o + 3]])
}
fn w16(b: &[u8], o: usize) -> u16 {
    u16::from_le_bytes([b[o], b[o + 1]])
}
/// chunk header at `o`: identifier stored reversed (proved by u15_3_chunk_header_codec), then the size
fn is_header(b: &[u8], o: usize, id: [u8; 4], size: usize) -> bool {
    b[o] == id[3] && b[o + 1] == id[2] && b[o + 2] == id[1] && b[o + 3] == id[0] && w32(b, o + 4) as usize == size
}
fn any_vec3() -> Vec3 {
    Vec3 { x: kani::any(), y: kani::any(), z: kani::any() }
}
fn any_light() -> WmoLight {
    let t: u8 = kani::any();
    kani::assume(t < 4);
    let light_type = match t { 0 => WmoLightType::Omni, 1 => WmoLightType::Spot, 2 => WmoLightType::Directional, _ => WmoLightType::Ambient };
    WmoLight {
        light_type,
        position: any_vec3(),
        color: Color { r: kani::any(), g: kani::any(), b: kani::any(), a: kani::any() },
        intensity: kani::any(),
        rotation: [kani::any(), kani::any(), kani::any(), kani::any()],
        attenuation_start: kani::any(),
        attenuation_end: kani::any(),
        use_attenuation: kani::any(),
        properties: WmoLightProperties::Omni,
    }
}

// MVER: 'REVM', size 4, the raw version word of the target (17 up to MoP, then 18..23)
// @harness unit=U15.6 props=C15 kind=complete timeout=300 target="writer.rs: write_version (every target version)" oracle=wmo_roundtrip
#[kani::proof]
#[kani::unwind(6)]
#[kani::stub(alloc::fmt::format, stub_format)]
fn u15_6_write_version() {
    let k: u8 = kani::any();
    kani::assume(k < 11);
    let v = match k { 0 => WmoVersion::Classic, 1 => WmoVersion::Tbc, 2 => WmoVersion::Wotlk, 3 => WmoVersion::Cataclysm, 4 => WmoVersion::Mop,
        5 => WmoVersion::Wod, 6 => WmoVersion::Legion, 7 => WmoVersion::Bfa, 8 => WmoVersion::Shadowlands, 9 => WmoVersion::Dragonflight, _ => WmoVersion::WarWithin };
    let mut buf = [0xAAu8; 16];
    let n = {
        let mut w: &mut [u8] = &mut buf[..];
        assert!(WmoWriter::new().write_version(&mut w, v).is_ok(), "write succeeds");
        16 - w.len()
    };
    assert!(n == 12, "8-byte header + 4-byte payload");
    assert!(is_header(&buf, 0, *b"MVER", 4), "MVER header with size 4");
    let want = if k <= 4 { 17 } else { 13 + k as u32 };
    assert!(w32(&buf, 8) == want, "raw version word of the target version");
    assert!(WmoVersion::from_raw(w32(&buf, 8)).is_some(), "the written version word is one the parser accepts");
}

// MOLT: 48 bytes per light: type, attenuation flag, 2 pad bytes, colour B,G,R,A, position, intensity, rotation
// quaternion, attenuation start / end - all little-endian at the published offsets
// @harness unit=U15.6 props=C15 kind=bounded bound="2 lights; every field value" timeout=600 target="writer.rs: write_lights (whole function)" oracle=wmo_roundtrip
#[kani::proof]
#[kani::unwind(6)]
#[kani::stub(alloc::fmt::format, stub_format)]
fn u15_6_write_lights_layout() {
    let lights = [any_light(), any_light()];
    let mut buf = [0xAAu8; 112];
    let n = {
        let mut w: &mut [u8] = &mut buf[..];
        assert!(WmoWriter::new().write_lights(&mut w, &lights, WmoVersion::Classic).is_ok(), "write succeeds");
        112 - w.len()
    };
    assert!(n == 8 + 96, "header + 48 bytes per light");
    assert!(is_header(&buf, 0, *b"MOLT", 96), "size field = payload bytes");
    let i: usize = kani::any();
    kani::assume(i < 2);
    let o = 8 + 48 * i;
    let l = &lights[i];
    assert!(buf[o] == l.light_type as u8 && buf[o + 1] == l.use_attenuation as u8 && buf[o + 2] == 0 && buf[o + 3] == 0, "type, attenuation flag, padding");
    assert!(buf[o + 4] == l.color.b && buf[o + 5] == l.color.g && buf[o + 6] == l.color.r && buf[o + 7] == l.color.a, "colour stored B,G,R,A");
    assert!(w32(&buf, o + 8) == l.position.x.to_bits() && w32(&buf, o + 12) == l.position.y.to_bits() && w32(&buf, o + 16) == l.position.z.to_bits(), "position");
    assert!(w32(&buf, o + 20) == l.intensity.to_bits(), "intensity");
    let k: usize = kani::any();
    kani::assume(k < 4);
    assert!(w32(&buf, o + 24 + 4 * k) == l.rotation[k].to_bits(), "rotation quaternion");
    assert!(w32(&buf, o + 40) == l.attenuation_start.to_bits() && w32(&buf, o + 44) == l.attenuation_end.to_bits(), "attenuation range");
    assert!(buf[104] == 0xAA, "nothing beyond the chunk");
}

// MODS: 32 bytes per set: 20-byte NUL-padded name (at most 19 name bytes), first doodad, count, one unused word
// @harness unit=U15.6 props=C15 kind=bounded bound="2 doodad sets, names of 3 and 21 bytes; every count value" timeout=600 target="writer.rs: write_doodad_sets (whole function)" oracle=wmo_roundtrip
#[kani::proof]
#[kani::unwind(24)]
#[kani::stub(alloc::fmt::format, stub_format)]
fn u15_6_write_doodad_sets_layout() {
    let long = "abcdefghijklmnopqrstu"; // 21 bytes: truncated to 19 + NUL
    let sets = [
        WmoDoodadSet { name: String::from("Set"), start_doodad: kani::any(), n_doodads: kani::any() },
        WmoDoodadSet { name: String::from(long), start_doodad: kani::any(), n_doodads: kani::any() },
    ];
    let mut buf = [0xAAu8; 80];
    let n = {
        let mut w: &mut [u8] = &mut buf[..];
        assert!(WmoWriter::new().write_doodad_sets(&mut w, &sets).is_ok(), "write succeeds");
        80 - w.len()
    };
    assert!(n == 8 + 64, "header + 32 bytes per set");
    assert!(is_header(&buf, 0, *b"MODS", 64), "size field = payload bytes");
    assert!(buf[8] == b'S' && buf[9] == b'e' && buf[10] == b't', "name bytes first");
    let j: usize = kani::any();
    kani::assume(j >= 3 && j < 20);
    assert!(buf[8 + j] == 0, "name is NUL padded to 20 bytes");
    let j2: usize = kani::any();
    kani::assume(j2 < 19);
    assert!(buf[40 + j2] == long.as_bytes()[j2] && buf[40 + 19] == 0, "a long name keeps its first 19 bytes and a terminator");
    let i: usize = kani::any();
    kani::assume(i < 2);
    let o = 8 + 32 * i;
    assert!(w32(&buf, o + 20) == sets[i].start_doodad && w32(&buf, o + 24) == sets[i].n_doodads && w32(&buf, o + 28) == 0, "first doodad, count, unused word");
    core::mem::forget(sets);
}

// MOSB: the skybox path followed by one NUL; size field = path bytes + 1; nothing is written without a skybox
// @harness unit=U15.6 props=C15 kind=bounded bound="skybox path of 0..=4 bytes (every ASCII byte value) or none" timeout=600 target="writer.rs: write_skybox (whole function)" oracle=wmo_roundtrip
#[kani::proof]
#[kani::unwind(8)]
#[kani::stub(alloc::fmt::format, stub_format)]
fn u15_6_write_skybox_layout() {
    let raw: [u8; 4] = kani::any();
    kani::assume(raw[0] < 0x80 && raw[1] < 0x80 && raw[2] < 0x80 && raw[3] < 0x80);
    let len: usize = kani::any();
    kani::assume(len <= 4);
    let s = match core::str::from_utf8(&raw[..len]) { Ok(s) => s, Err(_) => return };
    let present: bool = kani::any();
    let mut buf = [0xAAu8; 16];
    let n = {
        let mut w: &mut [u8] = &mut buf[..];
        assert!(WmoWriter::new().write_skybox(&mut w, if present { Some(s) } else { None }).is_ok(), "write succeeds");
        16 - w.len()
    };
    if !present {
        assert!(n == 0, "no chunk without a skybox");
        return;
    }
    assert!(n == 8 + len + 1, "header + path + NUL");
    assert!(is_header(&buf, 0, *b"MOSB", len + 1), "size field = payload bytes");
    let j: usize = kani::any();
    kani::assume(j < len);
    assert!(buf[8 + j] == raw[j] && buf[8 + len] == 0, "path bytes then the terminator");
}

// MOPV + MOPT: every portal's vertices in list order (12 bytes each), then 20 bytes per portal: index of its first
// vertex in MOPV, its vertex count, plane normal and plane distance
// @harness unit=U15.6 props=C15 kind=bounded bound="2 portals with 1 and 2 vertices; concrete normals and first vertices, every other coordinate value" timeout=900 target="writer.rs: write_portals (whole function)" oracle=wmo_roundtrip
#[kani::proof]
#[kani::unwind(6)]
#[kani::stub(alloc::fmt::format, stub_format)]
fn u15_6_write_portals_layout() {
    // the plane-distance statement multiplies floats: normals and each portal's first vertex are concrete here (a
    // symbolic float product does not come back from CBMC); the third vertex and all integer fields stay symbolic
    let v = [Vec3 { x: 1.5, y: -2.0, z: 0.25 }, Vec3 { x: 3.0, y: 4.0, z: -8.0 }, any_vec3()];
    let nr = [Vec3 { x: 0.5, y: 2.0, z: -1.0 }, Vec3 { x: 0.0, y: 0.0, z: 1.0 }];
    let portals = [
        WmoPortal { vertices: vec![v[0]], normal: nr[0] },
        WmoPortal { vertices: vec![v[1], v[2]], normal: nr[1] },
    ];
    let mut buf = [0xAAu8; 100];
    let n = {
        let mut w: &mut [u8] = &mut buf[..];
        assert!(WmoWriter::new().write_portals(&mut w, &portals).is_ok(), "write succeeds");
        100 - w.len()
    };
    assert!(n == 8 + 36 + 8 + 40, "MOPV (3 vertices) + MOPT (2 portals)");
    assert!(is_header(&buf, 0, *b"MOPV", 36), "MOPV size field = 12 bytes per vertex");
    let i: usize = kani::any();
    kani::assume(i < 3);
    let o = 8 + 12 * i;
    assert!(w32(&buf, o) == v[i].x.to_bits() && w32(&buf, o + 4) == v[i].y.to_bits() && w32(&buf, o + 8) == v[i].z.to_bits(), "vertices of all portals in order");
    assert!(is_header(&buf, 44, *b"MOPT", 40), "MOPT size field = 20 bytes per portal");
    assert!(w16(&buf, 52) == 0 && w16(&buf, 54) == 1, "portal 0: first vertex 0, 1 vertex");
    assert!(w16(&buf, 72) == 1 && w16(&buf, 74) == 2, "portal 1: first vertex 1, 2 vertices");
    let p: usize = kani::any();
    kani::assume(p < 2);
    let o = 52 + 20 * p;
    assert!(w32(&buf, o + 4) == nr[p].x.to_bits() && w32(&buf, o + 8) == nr[p].y.to_bits() && w32(&buf, o + 12) == nr[p].z.to_bits(), "plane normal");
    // 0.5 * 1.5 + 2.0 * -2.0 + -1.0 * 0.25 = -3.5 ; 0 * 3 + 0 * 4 + 1 * -8 = -8
    assert!(w32(&buf, 52 + 16) == (-3.5f32).to_bits() && w32(&buf, 72 + 16) == (-8.0f32).to_bits(), "plane distance = normal . first vertex of the portal");
    core::mem::forget(portals);
}

// MOVV + MOVB (this library's layout): MOVV entry i is the byte offset of list i inside the MOVB payload; MOVB holds
// every list followed by the 0xFFFF end marker; both size fields equal the payload bytes written
// @harness unit=U15.6 props=C15 kind=bounded bound="3 lists of 2, 0 and 1 indices; every index value" timeout=900 target="writer.rs: write_visible_block_lists (whole function)" oracle=wmo_roundtrip
#[kani::proof]
#[kani::unwind(6)]
#[kani::stub(alloc::fmt::format, stub_format)]
fn u15_6_write_visible_block_lists_layout() {
    let (a, b, c): (u16, u16, u16) = (kani::any(), kani::any(), kani::any());
    let lists = [vec![a, b], Vec::new(), vec![c]];
    let mut buf = [0xAAu8; 48];
    let n = {
        let mut w: &mut [u8] = &mut buf[..];
        assert!(WmoWriter::new().write_visible_block_lists(&mut w, &lists).is_ok(), "write succeeds");
        48 - w.len()
    };
    assert!(n == 8 + 12 + 8 + 12, "MOVV (3 offsets) + MOVB (3 indices + 3 markers)");
    assert!(is_header(&buf, 0, *b"MOVV", 12), "MOVV size field = 4 bytes per list");
    assert!(w32(&buf, 8) == 0 && w32(&buf, 12) == 6 && w32(&buf, 16) == 8, "offset i = bytes of the lists (with markers) before list i");
    assert!(is_header(&buf, 20, *b"MOVB", 12), "MOVB size field = 2 bytes per index and marker");
    assert!(w16(&buf, 28) == a && w16(&buf, 30) == b && w16(&buf, 32) == 0xFFFF, "list 0 then its end marker");
    assert!(w16(&buf, 34) == 0xFFFF, "empty list is just the marker");
    assert!(w16(&buf, 36) == c && w16(&buf, 38) == 0xFFFF, "list 2 then its end marker");
    assert!(buf[40] == 0xAA, "nothing beyond the chunk");
    core::mem::forget(lists);
}

// MLIQ framing: the size field equals the payload bytes written (liquid header + vertices + tile flags), for the old
// (height only) and the new (position + height) vertex layout
// @harness unit=U15.6 props=C15 kind=bounded bound="2 x 2 liquid vertices, 1 tile flag, targets Classic and WoD; every field value" timeout=900 target="writer.rs: write_liquid (whole function): framing law, header fields" oracle=wmo_roundtrip
#[kani::proof]
#[kani::unwind(6)]
#[kani::stub(alloc::fmt::format, stub_format)]
fn u15_6_write_liquid_framing() {
    use crate::wmo_group_types::WmoLiquidVertex;
    // finite heights: the bounding-box statement adds z and height, and Kani's NaN check would flag inf + -inf
    let lv = || {
        let v = WmoLiquidVertex { position: any_vec3(), height: kani::any() };
        kani::assume(v.position.z.is_finite() && v.height.is_finite());
        v
    };
    let liquid = WmoLiquid { liquid_type: kani::any(), flags: kani::any(), width: 2, height: 2, vertices: vec![lv(), lv(), lv(), lv()], tile_flags: Some(vec![kani::any()]) };
    let new_layout: bool = kani::any();
    let mut buf = [0xAAu8; 128];
    let n = {
        let mut w: &mut [u8] = &mut buf[..];
        assert!(WmoWriter::new().write_liquid(&mut w, &liquid, if new_layout { WmoVersion::Wod } else { WmoVersion::Classic }).is_ok(), "write succeeds");
        128 - w.len()
    };
    assert!(buf[0] == b'Q' && buf[1] == b'I' && buf[2] == b'L' && buf[3] == b'M', "MLIQ identifier");
    assert!(w32(&buf, 4) as usize == n - 8, "size field = payload bytes written");
    assert!(w32(&buf, 8) == liquid.liquid_type && w32(&buf, 12) == liquid.flags && w32(&buf, 16) == 1 && w32(&buf, 20) == 1, "type, flags, width - 1, height - 1");
    core::mem::forget(liquid);
}

// MOBN: 16 bytes per node; the size field equals the payload bytes written; children and face range little-endian
// @harness unit=U15.6 props=C15 kind=bounded bound="2 BSP nodes with axis-aligned planes (x and z); every distance, child and face value" timeout=600 target="writer.rs: write_bsp_nodes (whole function): framing law, child / face fields" oracle=wmo_roundtrip
#[kani::proof]
#[kani::unwind(6)]
#[kani::stub(alloc::fmt::format, stub_format)]
fn u15_6_write_bsp_nodes_framing() {
    use crate::wmo_group_types::WmoPlane;
    let nodes = [
        WmoBspNode { plane: WmoPlane { normal: Vec3 { x: 1.0, y: 0.0, z: 0.0 }, distance: kani::any() }, children: [kani::any(), kani::any()], first_face: kani::any(), num_faces: kani::any() },
        WmoBspNode { plane: WmoPlane { normal: Vec3 { x: 0.0, y: 0.0, z: -1.0 }, distance: kani::any() }, children: [kani::any(), kani::any()], first_face: kani::any(), num_faces: kani::any() },
    ];
    let mut buf = [0xAAu8; 48];
    let n = {
        let mut w: &mut [u8] = &mut buf[..];
        assert!(WmoWriter::new().write_bsp_nodes(&mut w, &nodes).is_ok(), "write succeeds");
        48 - w.len()
    };
    assert!(n == 8 + 32 && is_header(&buf, 0, *b"MOBN", 32), "size field = 16 bytes per node = payload bytes written");
    let i: usize = kani::any();
    kani::assume(i < 2);
    let o = 8 + 16 * i;
    assert!(w32(&buf, o + 4) == nodes[i].plane.distance.to_bits(), "plane distance");
    assert!(w16(&buf, o + 8) == nodes[i].children[0] as u16 && w16(&buf, o + 10) == nodes[i].children[1] as u16, "children");
    assert!(w16(&buf, o + 12) == nodes[i].first_face && w16(&buf, o + 14) == nodes[i].num_faces, "face range");
}
