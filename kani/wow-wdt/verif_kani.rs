//! Kani harnesses for wow-wdt (copied into the scratch copy as src/verif_kani.rs by /verif/check).
use crate::*;

// @harness unit=U18.1 props=C18 kind=complete timeout=120 target="lib.rs: tile_to_world, world_to_tile" oracle=tile
#[kani::proof]
fn u18_1_tile_roundtrip() {
    let x: u32 = kani::any();
    let y: u32 = kani::any();
    kani::assume(x < 64 && y < 64);
    let (wx, wy) = tile_to_world(x, y);
    let (tx, ty) = world_to_tile(wx, wy);
    assert!(tx == x, "tile x survives tile->world->tile");
    assert!(ty == y, "tile y survives tile->world->tile");
}

pub fn stub_format(_args: core::fmt::Arguments<'_>) -> String {
    String::new()
}

// MPHD: write(read(bytes)) reproduces the 32 payload bytes for every header the reader accepts (every defined flag
// combination, with and without the FileDataID reinterpretation), so every word is read from and written to its own slot
// @harness unit=U18.2 props=C18 kind=complete timeout=600 target="chunks/mphd.rs: MphdChunk::read / write (all 2^256 payloads)" oracle=wdt_roundtrip
#[kani::proof]
#[kani::unwind(9)]
#[kani::stub(alloc::fmt::format, stub_format)]
fn u18_2_mphd_codec() {
    use crate::chunks::{Chunk, MphdChunk};
    let buf: [u8; 32] = kani::any();
    let mut src: &[u8] = &buf[..];
    let c = match MphdChunk::read(&mut src, 32) {
        Ok(c) => c,
        Err(e) => {
            core::mem::forget(e);
            // only undefined flag bits are refused
            let flags = u32::from_le_bytes([buf[0], buf[1], buf[2], buf[3]]);
            assert!(flags & !0xFFFF != 0, "a header with only defined flag bits is accepted");
            return;
        }
    };
    assert!(src.is_empty(), "read consumes the 32 bytes");
    let mut out = [0xAAu8; 40];
    let left = {
        let mut w: &mut [u8] = &mut out[..];
        match c.write(&mut w) {
            Ok(()) => {}
            Err(e) => {
                core::mem::forget(e);
                assert!(false, "write succeeds");
            }
        }
        w.len()
    };
    assert!(left == 8, "write emits 32 bytes");
    let i: usize = kani::any();
    kani::assume(i < 32);
    assert!(out[i] == buf[i], "every payload byte survives read -> write");
}
