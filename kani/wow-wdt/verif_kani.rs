//! Kani harnesses for wow-wdt (copied into the scratch copy as src/verif_kani.rs by /verif/check).
use crate::*;

// @harness unit=U18.1 props=C18 kind=complete timeout=120 target="lib.rs: tile_to_world, world_to_tile" oracle=tile
#[kani::proof]
fn u18_1_tile_roundtrip() {
    let x: u32 = kani::any();
    let y: u32 = kani::any();
    kani::assume(x < 64 && y < 64);
    let (wx, wy) = tile_to_world(x, y);
    let (tx, ty) = world_to_tile(wx, wy);
    assert!(tx == x, "tile x survives tile->world->tile");
    assert!(ty == y, "tile y survives tile->world->tile");
}

pub fn stub_format(_args: core::fmt::Arguments<'_>) -> String {
    String::new()
}

// MPHD: write(read(bytes)) reproduces the 32 payload bytes for every header the reader accepts (every defined flag
// combination, with and without the FileDataID reinterpretation), so every word is read from and written to its own slot
// @harness unit=U18.2 props=C18 kind=complete timeout=600 target="chunks/mphd.rs: MphdChunk::read / write (all 2^256 payloads)" oracle=wdt_roundtrip
#[kani::proof]
#[kani::unwind(9)]
#[kani::stub(alloc::fmt::format, stub_format)]
fn u18_2_mphd_codec() {
    use crate::chunks::{Chunk, MphdChunk};
    let buf: [u8; 32] = kani::any();
    let mut src: &[u8] = &buf[..];
    let c = match MphdChunk::read(&mut src, 32) {
        Ok(c) => c,
        Err(e) => {
            core::mem::forget(e);
            // only undefined flag bits are refused
            let flags = u32::from_le_bytes([buf[0], buf[1], buf[2], buf[3]]);
            assert!(flags & !0xFFFF != 0, "a header with only defined flag bits is accepted");
            return;
        }
    };
    assert!(src.is_empty(), "read consumes the 32 bytes");
    let mut out = [0xAAu8; 40];
    let left = {
        let mut w: &mut [u8] = &mut out[..];
        match c.write(&mut w) {
            Ok(()) => {}
            Err(e) => {
                core::mem::forget(e);
                assert!(false, "write succeeds");
            }
        }
        w.len()
    };
    assert!(left == 8, "write emits 32 bytes");
    let i: usize = kani::any();
    kani::assume(i < 32);
    assert!(out[i] == buf[i], "every payload byte survives read -> write");
}

fn le32(b: &[u8], o: usize) -> u32 {
    u32::from_le_bytes([b[o], b[o + 1], b[o + 2], b[o + 3]])
}
fn le16(b: &[u8], o: usize) -> u16 {
    u16::from_le_bytes([b[o], b[o + 1]])
}

// MODF: 64 bytes per placement: name id, unique id, position, rotation, lower and upper bounds (3 floats each), flags,
// doodad set, name set, scale (u16 each) - every field from its published offset, and write(read(b)) == b
// @harness unit=U18.4 props=C18 kind=bounded bound="2 placements (128 payload bytes); every byte value" timeout=600 target="chunks/mod.rs: ModfChunk::read / write / size" oracle=wdt_roundtrip
#[kani::proof]
#[kani::unwind(5)]
#[kani::stub(alloc::fmt::format, stub_format)]
fn u18_4_modf_codec() {
    use crate::chunks::{Chunk, ModfChunk};
    let buf: [u8; 128] = kani::any();
    let mut src: &[u8] = &buf[..];
    let c = match ModfChunk::read(&mut src, 128) {
        Ok(c) => c,
        Err(e) => { core::mem::forget(e); assert!(false, "a payload of 2 x 64 bytes is accepted"); return; }
    };
    assert!(src.is_empty() && c.entries.len() == 2 && c.size() == 128, "one placement per 64 bytes");
    let k: usize = kani::any();
    kani::assume(k < 2);
    let o = 64 * k;
    let e = &c.entries[k];
    assert!(e.id == le32(&buf, o) && e.unique_id == le32(&buf, o + 4), "name id and unique id");
    let j: usize = kani::any();
    kani::assume(j < 3);
    assert!(e.position[j].to_bits() == le32(&buf, o + 8 + 4 * j) && e.rotation[j].to_bits() == le32(&buf, o + 20 + 4 * j), "position, rotation");
    assert!(e.lower_bounds[j].to_bits() == le32(&buf, o + 32 + 4 * j) && e.upper_bounds[j].to_bits() == le32(&buf, o + 44 + 4 * j), "bounding box");
    assert!(e.flags == le16(&buf, o + 56) && e.doodad_set == le16(&buf, o + 58) && e.name_set == le16(&buf, o + 60) && e.scale == le16(&buf, o + 62), "flags, doodad set, name set, scale");
    let mut out = [0xAAu8; 136];
    let left = {
        let mut w: &mut [u8] = &mut out[..];
        match c.write(&mut w) { Ok(()) => {}, Err(e) => { core::mem::forget(e); assert!(false, "write succeeds"); } }
        w.len()
    };
    assert!(left == 8, "write emits 64 bytes per placement");
    let i: usize = kani::any();
    kani::assume(i < 128);
    assert!(out[i] == buf[i], "every payload byte survives read -> write");
    core::mem::forget(c);
}

// a MODF payload that is not a whole number of placements is refused, never mis-framed
// @harness unit=U18.4 props=C18,C05 kind=complete timeout=300 target="chunks/mod.rs: ModfChunk::read size check (every declared size, empty input)" oracle=wdt_roundtrip
#[kani::proof]
#[kani::unwind(3)]
#[kani::stub(alloc::fmt::format, stub_format)]
fn u18_4_modf_partial_entry_refused() {
    use crate::chunks::{Chunk, ModfChunk};
    let size: usize = kani::any();
    kani::assume(size % 64 != 0);
    let empty: [u8; 0] = [];
    let mut src: &[u8] = &empty[..];
    match ModfChunk::read(&mut src, size) {
        Ok(c) => { core::mem::forget(c); assert!(false, "a partial placement is an error"); }
        Err(e) => core::mem::forget(e),
    }
}

// chunk framing (Chunk::write_chunk): reversed magic, payload size little-endian, then exactly `size` payload bytes
// @harness unit=U18.4 props=C18 kind=bounded bound="MVER, MODF with 1 placement, MWMO with names of 2 and 1 bytes; every field value" timeout=600 target="chunks/mod.rs: Chunk::write_chunk (default method) with MverChunk, ModfChunk, MwmoChunk write/size" oracle=wdt_roundtrip
#[kani::proof]
#[kani::unwind(6)]
#[kani::stub(alloc::fmt::format, stub_format)]
fn u18_4_write_chunk_framing() {
    use crate::chunks::{Chunk, ModfChunk, ModfEntry, MverChunk, MwmoChunk};
    // MVER
    let mut out = [0xAAu8; 16];
    let n = { let mut w: &mut [u8] = &mut out[..]; assert!(MverChunk::new().write_chunk(&mut w).is_ok()); 16 - w.len() };
    assert!(n == 12 && &out[0..4] == b"REVM" && le32(&out, 4) == 4 && le32(&out, 8) == 18, "MVER: header, size 4, version 18");
    // MODF
    let mut e = ModfEntry::new();
    e.id = kani::any(); e.unique_id = kani::any(); e.scale = kani::any(); e.flags = kani::any();
    let mut m = ModfChunk::new();
    m.add_entry(e);
    let mut out = [0xAAu8; 80];
    let n = { let mut w: &mut [u8] = &mut out[..]; assert!(m.write_chunk(&mut w).is_ok()); 80 - w.len() };
    assert!(n == 72 && &out[0..4] == b"FDOM" && le32(&out, 4) == 64, "MODF: size field = 64 bytes per placement = payload bytes written");
    assert!(le32(&out, 8) == m.entries[0].id && le16(&out, 70) == m.entries[0].scale && out[72] == 0xAA, "payload follows the header");
    core::mem::forget(m);
    // MWMO
    let mut w_ = MwmoChunk::new();
    w_.add_filename(String::from("ab"));
    w_.add_filename(String::from("c"));
    let mut out = [0xAAu8; 16];
    let n = { let mut w: &mut [u8] = &mut out[..]; assert!(w_.write_chunk(&mut w).is_ok()); 16 - w.len() };
    assert!(n == 13 && &out[0..4] == b"OMWM" && le32(&out, 4) == 5, "MWMO: size field = name bytes + one NUL each = payload bytes written");
    assert!(&out[8..13] == b"ab\0c\0" && out[13] == 0xAA, "names in order, each NUL terminated");
    core::mem::forget(w_);
}

// write -> parse -> write stability of the optional MWMO chunk: the version the reader detects for a parsed file must be one
// for which the writer emits the chunks that were parsed (terrain map with MWMO => a pre-Cataclysm version, whatever the
// other MPHD flag bits say; WMO-only maps always keep it). MAID absent.
// @harness unit=U18.5 props=C18 kind=complete timeout=600 target="lib.rs: WdtReader::detect_version vs VersionConfig::should_have_chunk (all MPHD flag words, MWMO / MODF presence, every version hint)" oracle=wdt_roundtrip
#[kani::proof]
#[kani::unwind(8)]
#[kani::stub(alloc::fmt::format, stub_format)]
fn u18_5_detected_version_keeps_parsed_mwmo() {
    // MAIN stays empty: only the presence of the optional chunks and the MPHD flag word enter detect_version
    let mut wdt = WdtFile { mver: chunks::MverChunk::new(), mphd: chunks::MphdChunk::new(), main: chunks::MainChunk { entries: Vec::new() },
                            maid: None, mwmo: None, modf: None, version_config: version::VersionConfig::new(WowVersion::Classic) };
    wdt.mphd.flags = chunks::MphdFlags::from_bits_retain(kani::any::<u32>());
    let has_mwmo: bool = kani::any();
    if has_mwmo { wdt.mwmo = Some(chunks::MwmoChunk { filenames: Vec::new() }); }
    if kani::any() { wdt.modf = Some(chunks::ModfChunk { entries: Vec::new() }); }
    let hint = match kani::any::<u8>() % 5 { 0 => WowVersion::Classic, 1 => WowVersion::TBC, 2 => WowVersion::WotLK, 3 => WowVersion::Cataclysm, _ => WowVersion::MoP };
    let empty: [u8; 0] = [];
    let r = WdtReader::new(std::io::Cursor::new(&empty[..]), hint);
    let v = r.detect_version(&wdt);
    let cfg = version::VersionConfig::new(v);
    if has_mwmo {
        assert!(cfg.should_have_chunk("MWMO", wdt.is_wmo_only()), "a parsed MWMO chunk is written again under the detected version");
    }
    core::mem::forget(wdt);
}
