//! Kani harnesses for wow-wdt (copied into the scratch copy as src/verif_kani.rs by /verif/check).
use crate::*;

// @harness unit=U18.1 props=C18 kind=complete timeout=120 target="lib.rs: tile_to_world, world_to_tile" oracle=tile
#[kani::proof]
fn u18_1_tile_roundtrip() {
    let x: u32 = kani::any();
    let y: u32 = kani::any();
    kani::assume(x < 64 && y < 64);
    let (wx, wy) = tile_to_world(x, y);
    let (tx, ty) = world_to_tile(wx, wy);
    assert!(tx == x, "tile x survives tile->world->tile");
    assert!(ty == y, "tile y survives tile->world->tile");
}
