//! Kani harnesses for wow-m2 record codecs (copied into the scratch copy as src/verif_kani.rs by /verif/check).
//! Pattern: symbolic bytes -> parse -> write into a fixed slice sink -> the bytes written are the bytes read
//! and their number is the version-dependent record size.  Floats are compared as bits.
#![allow(unused_imports, dead_code)]
use crate::chunks::animation::{M2Animation, M2InterpolationType};
use crate::chunks::bone::M2Bone;
use crate::chunks::m2_track::{M2Track, M2TrackBase};
use crate::chunks::material::M2Material;
use crate::chunks::texture::{M2Texture, M2TextureType};
use crate::common::{C3Vector, M2Array};
use std::io::Cursor;
use crate::version::M2Version;
use crate::chunks::attachment::M2Attachment;

include!("verif_blocks.rs");

pub fn stub_format(_args: core::fmt::Arguments<'_>) -> String {
    String::new()
}

/// number of bytes written into a slice sink that started with `cap` bytes of room
fn written(cap: usize, rest: &[u8]) -> usize {
    cap - rest.len()
}

macro_rules! same_prefix {
    ($out:expr, $inp:expr, $n:expr) => {{
        let i: usize = kani::any();
        kani::assume(i < $n);
        assert!($out[i] == $inp[i], "write(parse(bytes)) reproduces the bytes");
    }};
}

// @harness unit=U13.1 props=C13 kind=complete timeout=300 target="common.rs: M2Array::parse / write (all count/offset values)" oracle=m2_records
#[kani::proof]
#[kani::unwind(10)]
#[kani::stub(alloc::fmt::format, stub_format)]
fn u13_1_m2array_codec() {
    let buf: [u8; 8] = kani::any();
    let mut c = Cursor::new(&buf[..]);
    let a = match M2Array::<u32>::parse(&mut c) {
        Ok(a) => a,
        Err(e) => {
            core::mem::forget(e);
            assert!(false, "8 bytes always parse");
            return;
        }
    };
    assert!(c.position() == 8);
    assert!(a.count == u32::from_le_bytes([buf[0], buf[1], buf[2], buf[3]]) && a.offset == u32::from_le_bytes([buf[4], buf[5], buf[6], buf[7]]));
    let mut out = [0u8; 8];
    let n = {
        let mut w: &mut [u8] = &mut out[..];
        if let Err(e) = a.write(&mut w) {
            core::mem::forget(e);
            assert!(false, "write succeeds");
            return;
        }
        written(8, w)
    };
    assert!(n == 8, "record size is 8");
    same_prefix!(out, buf, 8);
}

// @harness unit=U13.1 props=C13 kind=complete timeout=600 target="chunks/m2_track.rs: M2Track<C3Vector>::parse / write, every version (28 bytes before 264, 20 bytes from 264)" oracle=m2_records
#[kani::proof]
#[kani::unwind(30)]
#[kani::stub(alloc::fmt::format, stub_format)]
fn u13_1_track_codec() {
    let buf: [u8; 28] = kani::any();
    let version: u32 = kani::any();
    // documented normalisation: an unknown interpolation code is read as Linear
    kani::assume(M2InterpolationType::from_u16(u16::from_le_bytes([buf[0], buf[1]])).is_some());
    let mut c = Cursor::new(&buf[..]);
    let t = match M2Track::<C3Vector>::parse(&mut c, version) {
        Ok(t) => t,
        Err(e) => {
            core::mem::forget(e);
            assert!(false, "28 bytes always parse");
            return;
        }
    };
    let consumed = c.position() as usize;
    assert!(consumed == if version < 264 { 28 } else { 20 }, "track header size depends on the version");
    let mut out = [0u8; 28];
    let n = {
        let mut w: &mut [u8] = &mut out[..];
        if let Err(e) = t.write(&mut w, version) {
            core::mem::forget(e);
            assert!(false, "write succeeds");
            return;
        }
        written(28, w)
    };
    assert!(n == consumed, "write emits as many bytes as parse consumed");
    same_prefix!(out, buf, consumed);
}

// @harness unit=U13.1 props=C13 kind=complete timeout=900 target="chunks/animation.rs: M2Animation::parse / write, every version and field value" oracle=m2_records
#[kani::proof]
#[kani::unwind(70)]
#[kani::stub(alloc::fmt::format, stub_format)]
fn u13_1_sequence_codec() {
    let buf: [u8; 68] = kani::any();
    let version: u32 = kani::any();
    let mut c = Cursor::new(&buf[..]);
    let a = match M2Animation::parse(&mut c, version) {
        Ok(a) => a,
        Err(e) => {
            core::mem::forget(e);
            return;
        }
    };
    let consumed = c.position() as usize;
    let mut out = [0u8; 68];
    let n = {
        let mut w: &mut [u8] = &mut out[..];
        if let Err(e) = a.write(&mut w, version) {
            core::mem::forget(e);
            assert!(false, "write succeeds");
            return;
        }
        written(68, w)
    };
    assert!(n == consumed, "write emits as many bytes as parse consumed");
    same_prefix!(out, buf, consumed);
}

fn not_nan_bits(b: &[u8; 112], p: usize) -> bool {
    // exponent not all ones  <=>  neither NaN nor infinity (integer test: no float reasoning needed)
    (u32::from_le_bytes([b[p], b[p + 1], b[p + 2], b[p + 3]]) & 0x7F80_0000) != 0x7F80_0000
}

fn bone_codec(version: u32) {
    // header bytes symbolic; the three track headers and the pivot are zero here - their codecs are
    // u13_1_track_codec / C3Vector (plain f32 words) and M2Bone passes them through unchanged
    let head: [u8; 16] = kani::any();
    let mut buf = [0u8; 112];
    let mut k = 0;
    while k < 16 {
        buf[k] = head[k];
        k += 1;
    }
    let hdr = if version >= 260 { 16 } else { 12 };
    let trk = if version < 264 { 28 } else { 20 };
    if hdr == 12 {
        buf[12] = 0;
        buf[13] = 0;
        buf[14] = 0;
        buf[15] = 0;
    }
    // documented normalisations excluded: unknown interpolation -> Linear, NaN pivot -> 0
    kani::assume(M2InterpolationType::from_u16(u16::from_le_bytes([buf[hdr], buf[hdr + 1]])).is_some());
    kani::assume(M2InterpolationType::from_u16(u16::from_le_bytes([buf[hdr + trk], buf[hdr + trk + 1]])).is_some());
    kani::assume(M2InterpolationType::from_u16(u16::from_le_bytes([buf[hdr + 2 * trk], buf[hdr + 2 * trk + 1]])).is_some());
    let p = hdr + 3 * trk;
    kani::assume(not_nan_bits(&buf, p) && not_nan_bits(&buf, p + 4) && not_nan_bits(&buf, p + 8));
    let mut c = Cursor::new(&buf[..]);
    let b = match M2Bone::parse(&mut c, version) {
        Ok(b) => b,
        Err(e) => {
            core::mem::forget(e);
            assert!(false, "112 bytes always parse");
            return;
        }
    };
    let consumed = c.position() as usize;
    assert!(consumed == hdr + 3 * trk + 12, "bone record size = header + three track headers + pivot");
    let mut out = [0u8; 112];
    let n = {
        let mut w: &mut [u8] = &mut out[..];
        if let Err(e) = b.write(&mut w, version) {
            core::mem::forget(e);
            assert!(false, "write succeeds");
            return;
        }
        written(112, w)
    };
    assert!(n == consumed, "write emits as many bytes as parse consumed");
    same_prefix!(out, buf, consumed);
}

// @harness unit=U13.1 props=C13 kind=bounded bound="version 256 (one representative per version branch: <260, 260..263, >=264); every header field value" timeout=600 target="chunks/bone.rs: M2Bone::parse / write" oracle=m2_records
#[kani::proof]
#[kani::unwind(30)]
#[kani::stub(alloc::fmt::format, stub_format)]
fn u13_1_bone_codec_v256() {
    bone_codec(256);
}

// @harness unit=U13.1 props=C13 kind=bounded bound="version 260 (one representative per version branch: <260, 260..263, >=264); every header field value" timeout=600 target="chunks/bone.rs: M2Bone::parse / write" oracle=m2_records
#[kani::proof]
#[kani::unwind(30)]
#[kani::stub(alloc::fmt::format, stub_format)]
fn u13_1_bone_codec_v260() {
    bone_codec(260);
}

// @harness unit=U13.1 props=C13 kind=bounded bound="version 263 (one representative per version branch: <260, 260..263, >=264); every header field value" timeout=600 target="chunks/bone.rs: M2Bone::parse / write" oracle=m2_records
#[kani::proof]
#[kani::unwind(30)]
#[kani::stub(alloc::fmt::format, stub_format)]
fn u13_1_bone_codec_v263() {
    bone_codec(263);
}

// @harness unit=U13.1 props=C13 kind=bounded bound="version 264 (one representative per version branch: <260, 260..263, >=264); every header field value" timeout=600 target="chunks/bone.rs: M2Bone::parse / write" oracle=m2_records
#[kani::proof]
#[kani::unwind(30)]
#[kani::stub(alloc::fmt::format, stub_format)]
fn u13_1_bone_codec_v264() {
    bone_codec(264);
}

// @harness unit=U13.1 props=C13 kind=bounded bound="version 272 (one representative per version branch: <260, 260..263, >=264); every header field value" timeout=600 target="chunks/bone.rs: M2Bone::parse / write" oracle=m2_records
#[kani::proof]
#[kani::unwind(30)]
#[kani::stub(alloc::fmt::format, stub_format)]
fn u13_1_bone_codec_v272() {
    bone_codec(272);
}

// @harness unit=U13.1 props=C13 kind=complete timeout=300 target="chunks/material.rs: M2Material::parse / write" oracle=m2_records
#[kani::proof]
#[kani::unwind(6)]
#[kani::stub(alloc::fmt::format, stub_format)]
fn u13_1_material_codec() {
    let buf: [u8; 4] = kani::any();
    let version: u32 = kani::any();
    let mut c = Cursor::new(&buf[..]);
    let m = match M2Material::parse(&mut c, version) {
        Ok(m) => m,
        Err(e) => {
            core::mem::forget(e);
            assert!(false, "4 bytes always parse");
            return;
        }
    };
    let mut out = [0u8; 4];
    let n = {
        let mut w: &mut [u8] = &mut out[..];
        if let Err(e) = m.write(&mut w, version) {
            core::mem::forget(e);
            assert!(false);
            return;
        }
        written(4, w)
    };
    assert!(n == 4 && c.position() == 4, "material record is 4 bytes");
    same_prefix!(out, buf, 4);
}

// model -> bytes direction: a bone built in memory (M2Bone::new, any header field values, name CRC present or not) is written
// with exactly the record size of the version and parses back with the same header fields
fn bone_from_model(version: u32) {
    let mut b = M2Bone::new(kani::any(), kani::any());
    b.flags = crate::chunks::bone::M2BoneFlags::from_bits_retain(kani::any());
    b.submesh_id = kani::any();
    b.bone_name_crc = if kani::any() { Some(kani::any()) } else { None };
    let hdr = if version >= 260 { 16 } else { 12 };
    let trk = if version < 264 { 28 } else { 20 };
    let mut out = [0u8; 112];
    let n = {
        let mut w: &mut [u8] = &mut out[..];
        if let Err(e) = b.write(&mut w, version) {
            core::mem::forget(e);
            assert!(false, "write succeeds");
            return;
        }
        written(112, w)
    };
    assert!(n == hdr + 3 * trk + 12, "written bone record has the size of the version");
    let mut c = Cursor::new(&out[..]);
    let back = match M2Bone::parse(&mut c, version) {
        Ok(x) => x,
        Err(e) => {
            core::mem::forget(e);
            assert!(false, "the written bone parses");
            return;
        }
    };
    assert!(c.position() as usize == n, "parse consumes what write emitted");
    assert!(back.bone_id == b.bone_id && back.parent_bone == b.parent_bone && back.submesh_id == b.submesh_id, "ids survive write->parse");
    assert!(back.flags.bits() == b.flags.bits(), "flags survive write->parse");
    if version >= 260 {
        if let Some(crc) = b.bone_name_crc {
            assert!(back.bone_name_crc == Some(crc), "name CRC survives write->parse");
        }
    }
    core::mem::forget(b);
    core::mem::forget(back);
}

// @harness unit=U13.1 props=C13 kind=bounded bound="version 256 (one representative per layout branch: <260, 260..263, >=264); empty tracks; every header field value" timeout=600 target="chunks/bone.rs: M2Bone::new / write / parse" oracle=m2_records
#[kani::proof]
#[kani::unwind(30)]
#[kani::stub(alloc::fmt::format, stub_format)]
fn u13_1_bone_from_model_v256() {
    bone_from_model(256);
}

// @harness unit=U13.1 props=C13 kind=bounded bound="version 260 (one representative per layout branch: <260, 260..263, >=264); empty tracks; every header field value" timeout=600 target="chunks/bone.rs: M2Bone::new / write / parse" oracle=m2_records
#[kani::proof]
#[kani::unwind(30)]
#[kani::stub(alloc::fmt::format, stub_format)]
fn u13_1_bone_from_model_v260() {
    bone_from_model(260);
}

// @harness unit=U13.1 props=C13 kind=bounded bound="version 264 (one representative per layout branch: <260, 260..263, >=264); empty tracks; every header field value" timeout=600 target="chunks/bone.rs: M2Bone::new / write / parse" oracle=m2_records
#[kani::proof]
#[kani::unwind(30)]
#[kani::stub(alloc::fmt::format, stub_format)]
fn u13_1_bone_from_model_v264() {
    bone_from_model(264);
}


// ------------------------------------------------------------------------------------ attachment record, conversion paths
// @harness unit=U13.1 props=C13 kind=bounded bound="scale track with an empty value array; every other byte value incl. negative bone index" timeout=600 target="chunks/attachment.rs: M2Attachment::parse / write (48 bytes)" oracle=m2_records
#[kani::proof]
#[kani::unwind(12)]
#[kani::stub(alloc::fmt::format, stub_format)]
fn u13_1_attachment_codec() {
    let buf: [u8; 48] = kani::any();
    let version: u32 = kani::any();
    // documented normalisation excluded: unknown interpolation code of the scale track
    kani::assume(M2InterpolationType::from_u16(u16::from_le_bytes([buf[20], buf[21]])).is_some());
    // the scale track's value array is followed through its offset by the parser: empty here (count word = 0)
    kani::assume(buf[40] == 0 && buf[41] == 0 && buf[42] == 0 && buf[43] == 0);
    let mut c = Cursor::new(&buf[..]);
    let a = match M2Attachment::parse(&mut c, version) {
        Ok(a) => a,
        Err(e) => {
            core::mem::forget(e);
            return;
        }
    };
    let consumed = c.position() as usize;
    assert!(a.bone_index == i32::from_le_bytes([buf[4], buf[5], buf[6], buf[7]]), "bone index is the full signed dword");
    let mut out = [0u8; 48];
    let n = {
        let mut w: &mut [u8] = &mut out[..];
        if let Err(e) = a.write(&mut w, version) {
            core::mem::forget(e);
            assert!(false, "write succeeds");
            return;
        }
        written(48, w)
    };
    assert!(n == consumed, "write emits as many bytes as parse consumed");
    same_prefix!(out, buf, consumed);
    core::mem::forget(a);
}

fn any_m2_version(k: u8) -> M2Version {
    match k % 11 {
        0 => M2Version::Vanilla, 1 => M2Version::TBC, 2 => M2Version::WotLK, 3 => M2Version::Cataclysm, 4 => M2Version::MoP, 5 => M2Version::WoD,
        6 => M2Version::Legion, 7 => M2Version::BfA, 8 => M2Version::Shadowlands, 9 => M2Version::Dragonflight, _ => M2Version::TheWarWithin,
    }
}

// a multi-step conversion path ends at the requested version and moves one release at a time in one direction
// @harness unit=U13.2 props=C13 kind=complete timeout=900 target="converter.rs: M2Converter::build_conversion_paths path construction (E11 block), every (from, to) pair" oracle=m2_records
#[kani::proof]
#[kani::unwind(14)]
#[kani::stub(alloc::fmt::format, stub_format)]
fn u13_2_conversion_path_reaches_target() {
    let versions = [M2Version::Vanilla, M2Version::TBC, M2Version::WotLK, M2Version::Cataclysm, M2Version::MoP, M2Version::WoD,
        M2Version::Legion, M2Version::BfA, M2Version::Shadowlands, M2Version::Dragonflight, M2Version::TheWarWithin];
    let (a, b): (u8, u8) = (kani::any(), kani::any());
    kani::assume(a < 11 && b < 11 && a != b);
    let path = blk_conversion_path(versions, any_m2_version(a), any_m2_version(b));
    let dist = if a < b { b - a } else { a - b } as usize;
    assert!(path.len() == dist, "one step per release between the two versions");
    assert!(path[path.len() - 1] == any_m2_version(b), "the path ends at the requested version");
    let i: usize = kani::any();
    kani::assume(i < path.len());
    let want = if a < b { a + 1 + i as u8 } else { a - 1 - i as u8 };
    assert!(path[i] == any_m2_version(want), "step i is the i-th release towards the target");
    core::mem::forget(path);
}

// ------------------------------------------------------------------------------------ U13.3 M2Header (MD20 header)
// The published header (wowdev.wiki M2#Header): 'MD20', version, name, global flags, then the (count, offset) pairs in the
// published order; playable-animation lookup and texture flipbooks only up to 263; the view array is a plain count
// from 264; blend-map overrides iff version >= 260 and flag 0x0800_0000; texture combiner combos iff flag 0x8; texture
// transforms from Legion (header version >= 273 in this library's numbering).  A harness over the whole 344-byte header
// (parse + write through Cursor) exhausts CBMC (> 25 GB); and so does a write-only harness over
// a header built from symbolic fields; the version / flag gates are decided on statement blocks of parse.
// ---- U13.3b the version / flag gates of M2Header::parse as statement blocks (E11): cheap, every version and flag word
use crate::io_ext::ReadExt;
use crate::header::M2ModelFlags;

fn b32(b: &[u8], o: usize) -> u32 {
    u32::from_le_bytes([b[o], b[o + 1], b[o + 2], b[o + 3]])
}

// trailing optional arrays: blend-map overrides iff version >= 260 and flag 0x0800_0000; texture combiner combos iff flag
// 0x8; texture transforms from Legion (>= 273); in that order, each one (count, offset) pair
// @harness unit=U13.3 props=C13,C05 kind=complete timeout=600 target="header.rs: M2Header::parse version-specific tail (E11 block): every supported header version and flag word" oracle=m2_records
#[kani::proof]
#[kani::unwind(6)]
#[kani::stub(alloc::fmt::format, stub_format)]
fn u13_3_header_tail_gates() {
    let buf: [u8; 24] = kani::any();
    let version: u32 = kani::any();
    kani::assume(version >= 256 && version <= 399);
    let fw: u32 = kani::any();
    let mut c = Cursor::new(&buf[..]);
    let (blend, combos, transforms) = match blk_m2hdr_parse_tail(&mut c, version, M2ModelFlags::from_bits_retain(fw)) {
        Ok(t) => t,
        Err(e) => { core::mem::forget(e); assert!(false, "24 bytes are enough for the three optional arrays"); return; }
    };
    let mut o = 0usize;
    if version >= 260 && fw & 0x0800_0000 != 0 {
        match blend { Some(a) => assert!(a.count == b32(&buf, o) && a.offset == b32(&buf, o + 4), "blend map overrides"), None => assert!(false, "blend map overrides present with flag 0x08000000 from 260") }
        o += 8;
    } else {
        assert!(blend.is_none(), "no blend map overrides without flag 0x08000000");
    }
    if fw & 0x8 != 0 {
        match combos { Some(a) => assert!(a.count == b32(&buf, o) && a.offset == b32(&buf, o + 4), "texture combiner combos"), None => assert!(false, "combiner combos present with flag 0x8") }
        o += 8;
    } else {
        assert!(combos.is_none(), "no combiner combos without flag 0x8");
    }
    if version >= 273 {
        match transforms { Some(a) => assert!(a.count == b32(&buf, o) && a.offset == b32(&buf, o + 4), "texture transforms"), None => assert!(false, "texture transforms present from Legion") }
        o += 8;
    } else {
        assert!(transforms.is_none(), "no texture transforms before Legion");
    }
    assert!(c.position() as usize == o, "the tail consumes 8 bytes per present array");
}

// leading fields: name, flags, sequences .. texture flipbooks; playable-animation lookup and flipbooks only up to 263,
// the view array becomes a plain count from 264
// @harness unit=U13.3 props=C13,C05 kind=bounded bound="header versions 256, 260, 263, 264, 272, 274 (one per layout branch and both sides of each gate); every field value" timeout=900 target="header.rs: M2Header::parse leading fields up to the texture flipbooks (E11 block)" oracle=m2_records
#[kani::proof]
#[kani::unwind(6)]
#[kani::stub(alloc::fmt::format, stub_format)]
fn u13_3_header_head_gates() {
    let buf: [u8; 112] = kani::any();
    let k: u8 = kani::any();
    kani::assume(k < 6);
    let version: u32 = match k { 0 => 256, 1 => 260, 2 => 263, 3 => 264, 4 => 272, _ => 274 };
    let old = version <= 263;
    let mut c = Cursor::new(&buf[..]);
    let t = match blk_m2hdr_parse_head(&mut c, version) {
        Ok(t) => t,
        Err(e) => { core::mem::forget(e); assert!(false, "112 bytes are enough for the leading fields"); return; }
    };
    let (name, flags, gseq, anims, alook, playable, bones, kbl, verts, views, nskin, colors, textures, tlook, flip) = t;
    let mut o = 0usize;
    assert!(name.count == b32(&buf, o) && name.offset == b32(&buf, o + 4), "name"); o += 8;
    assert!(flags.bits() == b32(&buf, o), "flag word (all 32 bits retained)"); o += 4;
    assert!(gseq.count == b32(&buf, o) && gseq.offset == b32(&buf, o + 4), "global sequences"); o += 8;
    assert!(anims.count == b32(&buf, o) && anims.offset == b32(&buf, o + 4), "animations"); o += 8;
    assert!(alook.count == b32(&buf, o) && alook.offset == b32(&buf, o + 4), "animation lookup"); o += 8;
    if old {
        match playable { Some(a) => assert!(a.count == b32(&buf, o) && a.offset == b32(&buf, o + 4), "playable animation lookup"), None => assert!(false, "playable animation lookup present up to 263") }
        o += 8;
    } else {
        assert!(playable.is_none(), "no playable animation lookup from 264");
    }
    assert!(bones.count == b32(&buf, o) && bones.offset == b32(&buf, o + 4), "bones"); o += 8;
    assert!(kbl.count == b32(&buf, o) && kbl.offset == b32(&buf, o + 4), "key bone lookup"); o += 8;
    assert!(verts.count == b32(&buf, o) && verts.offset == b32(&buf, o + 4), "vertices"); o += 8;
    if old {
        assert!(views.count == b32(&buf, o) && views.offset == b32(&buf, o + 4) && nskin.is_none(), "view array up to 263"); o += 8;
    } else {
        assert!(nskin == Some(b32(&buf, o)), "skin profile count from 264"); o += 4;
    }
    assert!(colors.count == b32(&buf, o) && colors.offset == b32(&buf, o + 4), "colours"); o += 8;
    assert!(textures.count == b32(&buf, o) && textures.offset == b32(&buf, o + 4), "textures"); o += 8;
    assert!(tlook.count == b32(&buf, o) && tlook.offset == b32(&buf, o + 4), "texture weights"); o += 8;
    if old {
        match flip { Some(a) => assert!(a.count == b32(&buf, o) && a.offset == b32(&buf, o + 4), "texture flipbooks"), None => assert!(false, "texture flipbooks present up to 263") }
        o += 8;
    } else {
        assert!(flip.is_none(), "no texture flipbooks from 264");
    }
    assert!(c.position() as usize == o, "bytes consumed = published size of the leading fields");
}

// version conversion of a bone keeps all content representable in both versions: every version from TBC (260) on stores the
// bone name CRC, so converting between any two of them - or from any of them to TBC - keeps it, together with the scalar fields
// @harness unit=U13.3 props=C13 kind=complete timeout=600 target="chunks/bone.rs: M2Bone::convert (every scalar field value, every target version)" oracle=m2_model
#[kani::proof]
#[kani::unwind(8)]
#[kani::stub(alloc::fmt::format, stub_format)]
fn u13_3_bone_convert_keeps_crc() {
    let mut b = M2Bone::new(kani::any(), kani::any());
    b.submesh_id = kani::any();
    b.flags = crate::chunks::bone::M2BoneFlags::from_bits_retain(kani::any());
    let crc: u32 = kani::any();
    b.bone_name_crc = Some(crc);
    let target = match kani::any::<u8>() % 7 { 0 => M2Version::Vanilla, 1 => M2Version::TBC, 2 => M2Version::WotLK, 3 => M2Version::Cataclysm, 4 => M2Version::MoP, 5 => M2Version::WoD, _ => M2Version::Legion };
    let c = b.convert(target);
    assert!(c.bone_id == b.bone_id && c.parent_bone == b.parent_bone && c.submesh_id == b.submesh_id && c.flags.bits() == b.flags.bits(), "scalar fields survive conversion");
    if target.to_header_version() >= 260 {
        assert!(c.bone_name_crc == Some(crc), "the bone name CRC survives conversion to every version that stores it (TBC and later)");
    }
    core::mem::forget(b);
    core::mem::forget(c);
}
