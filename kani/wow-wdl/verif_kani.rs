//! Kani harnesses for wow-wdl (copied into the scratch copy as src/verif_kani.rs by /verif/check).
use crate::types::{HeightMapTile, HolesData};

pub fn stub_format(_args: core::fmt::Arguments<'_>) -> String {
    String::new()
}

// MAHO payload: read(write(h)) == h for every 16 x u16 mask set, 32 bytes, each mask little-endian at byte 2*row
// @harness unit=U18.3 props=C18 kind=complete timeout=600 target="types.rs: HolesData::read / write (all 2^256 mask sets)" oracle=wdl_roundtrip
#[kani::proof]
#[kani::unwind(18)]
#[kani::stub(alloc::fmt::format, stub_format)]
fn u18_3_holes_codec() {
    let h = HolesData { hole_masks: kani::any() };
    let mut buf = [0xAAu8; 40];
    let left = {
        let mut w: &mut [u8] = &mut buf[..];
        assert!(h.write(&mut w).is_ok(), "write succeeds");
        w.len()
    };
    assert!(left == 8, "32 bytes are written");
    let i: usize = kani::any();
    kani::assume(i < 16);
    assert!(buf[2 * i] == (h.hole_masks[i] & 0xFF) as u8 && buf[2 * i + 1] == (h.hole_masks[i] >> 8) as u8, "mask i is little-endian at byte 2i");
    let mut src: &[u8] = &buf[..32];
    match HolesData::read(&mut src) {
        Ok(back) => {
            assert!(back.hole_masks[i] == h.hole_masks[i], "every mask survives write -> read");
            assert!(src.is_empty(), "read consumes 32 bytes");
        }
        Err(e) => {
            core::mem::forget(e);
            assert!(false, "the written payload parses");
        }
    }
}

// MARE payload: write(read(bytes)) reproduces the 1090 bytes, the first 289 values are the outer grid and the next 256
// the inner grid, each little-endian (fixed trip counts 289 / 256; one symbolic value position checked)
// @harness unit=U18.3 props=C18 kind=complete timeout=900 target="types.rs: HeightMapTile::read / write (1090-byte payload)" oracle=wdl_roundtrip
#[kani::proof]
#[kani::unwind(291)]
#[kani::stub(alloc::fmt::format, stub_format)]
fn u18_3_heightmap_codec() {
    let buf: [u8; 1090] = kani::any();
    let mut src: &[u8] = &buf[..];
    let t = match HeightMapTile::read(&mut src) {
        Ok(t) => t,
        Err(e) => {
            core::mem::forget(e);
            assert!(false, "1090 bytes always parse");
            return;
        }
    };
    assert!(src.is_empty(), "read consumes 1090 bytes");
    assert!(t.outer_values.len() == 289 && t.inner_values.len() == 256, "17x17 outer and 16x16 inner values");
    let k: usize = kani::any();
    kani::assume(k < 545);
    let v = i16::from_le_bytes([buf[2 * k], buf[2 * k + 1]]);
    if k < 289 {
        assert!(t.outer_values[k] == v, "outer value k is the k-th little-endian word");
    } else {
        assert!(t.inner_values[k - 289] == v, "inner value k is word 289 + k");
    }
    core::mem::forget(t);
}
