//! Kani harnesses for wow-blp (copied into the scratch copy as src/verif_kani.rs by /verif/check).
#![allow(unused_imports, dead_code)]
use crate::parser::verif_reexport::*;
use crate::types::*;
use crate::parser::error::Error;
use crate::parser::types::ParseResult;
use crate::types::jpeg::MAX_JPEG_HEADER;
use log::*;

include!("verif_blocks.rs");

pub fn stub_format(_args: core::fmt::Arguments<'_>) -> String {
    String::new()
}

fn hdr(version: BlpVersion, w: u32, h: u32, mips: bool, alpha: u32) -> BlpHeader {
    BlpHeader {
        version,
        content: BlpContentTag::Direct,
        flags: BlpFlags::Old { alpha_bits: alpha, extra: 0, has_mipmaps: if mips { 1 } else { 0 } },
        width: w,
        height: h,
        mipmap_locator: MipmapLocator::Internal { offsets: [0; 16], sizes: [0; 16] },
    }
}

// ------------------------------------------------------------------------------------ U16.3 / U05.8 locator bounds
// @harness unit=U16.3 props=C16,C05 kind=complete timeout=300 target="parser/bounds.rs: check_bounds, get_bounded_slice (all u32 offset/size; buffer length <= 32 is immaterial to the arithmetic)" oracle=blp_total
#[kani::proof]
#[kani::unwind(4)]
#[kani::stub(alloc::fmt::format, stub_format)]
fn u16_3_bounded_slice() {
    let buf: [u8; 32] = kani::any();
    let len: usize = kani::any();
    kani::assume(len <= 32);
    let off: u32 = kani::any();
    let size: u32 = kani::any();
    match get_bounded_slice(&buf[..len], off, size, 0) {
        Ok(s) => {
            assert!(s.len() == size as usize, "slice has the requested size");
            assert!((off as usize) < len && off as usize + size as usize <= len, "stored offsets and sizes lie inside the file");
        }
        Err(e) => core::mem::forget(e),
    }
}

// ------------------------------------------------------------------------------------ U16.1 mip chain arithmetic
// (mipmaps_count goes through f32::log2, which CBMC does not model bit-precisely: not decided here)
// @harness unit=U16.1 props=C16 kind=complete timeout=600 target="types/header.rs: mipmap_size, mipmap_pixels (every u32 width/height, every level 0..=31)" oracle=blp_mips
#[kani::proof]
#[kani::unwind(4)]
#[kani::stub(alloc::fmt::format, stub_format)]
fn u16_1_mip_size_law() {
    let w: u32 = kani::any();
    let h: u32 = kani::any();
    let hd = hdr(BlpVersion::Blp1, w, h, true, 0);
    let i: usize = kani::any();
    kani::assume(i <= 31);
    let (mw, mh) = hd.mipmap_size(i);
    // each level halves each dimension (rounding down), never below 1; level 0 is the image itself
    let ew = if i == 0 { w } else if (w >> i) == 0 { 1 } else { w >> i };
    let eh = if i == 0 { h } else if (h >> i) == 0 { 1 } else { h >> i };
    assert!(mw == ew && mh == eh, "level i is (max(w>>i,1), max(h>>i,1))");
    if i > 0 && (w >> i) == 0 && (h >> i) == 0 {
        assert!(mw == 1 && mh == 1, "once both sides are exhausted the level is 1x1");
    }
    if (mw as u64) * (mh as u64) <= u32::MAX as u64 {
        assert!(hd.mipmap_pixels(i) == mw * mh, "pixel count is the product");
    }
}

// @harness unit=U16.1 props=C16,C05 kind=complete timeout=600 target="types/header.rs: mipmap_pixels for every u32 width/height (overflow freedom)" oracle=blp_total
#[kani::proof]
#[kani::unwind(4)]
#[kani::stub(alloc::fmt::format, stub_format)]
fn u16_1_mip_pixels_total() {
    let w: u32 = kani::any();
    let h: u32 = kani::any();
    let hd = hdr(BlpVersion::Blp1, w, h, kani::any(), 0);
    let i: usize = kani::any();
    kani::assume(i <= 31);
    let _ = hd.mipmap_pixels(i);
}

// ------------------------------------------------------------------------------------ U16.2 header codec
fn any_header(v: u8) -> BlpHeader {
    let version = match v % 3 {
        0 => BlpVersion::Blp0,
        1 => BlpVersion::Blp1,
        _ => BlpVersion::Blp2,
    };
    let content = if kani::any() { BlpContentTag::Direct } else { BlpContentTag::Jpeg };
    let flags = if version == BlpVersion::Blp2 {
        let c: u8 = kani::any();
        let compression = match c % 4 {
            0 => Compression::Jpeg,
            1 => Compression::Raw1,
            2 => Compression::Raw3,
            _ => Compression::Dxtc,
        };
        let a: u8 = kani::any();
        let alpha_type = match a % 4 {
            0 => AlphaType::None,
            1 => AlphaType::OneBit,
            2 => AlphaType::Enhanced,
            _ => AlphaType::EightBit,
        };
        BlpFlags::Blp2 { compression, alpha_bits: kani::any(), alpha_type, has_mipmaps: kani::any() }
    } else {
        // the alpha depths the format defines for this content kind (anything else is normalised on read)
        let alpha_bits: u32 = kani::any();
        if content == BlpContentTag::Jpeg {
            kani::assume(alpha_bits == 0 || alpha_bits == 8);
        } else {
            kani::assume(alpha_bits == 0 || alpha_bits == 1 || alpha_bits == 4 || alpha_bits == 8);
        }
        BlpFlags::Old { alpha_bits, extra: kani::any(), has_mipmaps: kani::any() }
    };
    let width: u32 = kani::any();
    let height: u32 = kani::any();
    kani::assume(width <= 65535 && height <= 65535);
    let mipmap_locator = if version == BlpVersion::Blp0 {
        MipmapLocator::External
    } else {
        MipmapLocator::Internal { offsets: kani::any(), sizes: kani::any() }
    };
    BlpHeader { version, content, flags, width, height, mipmap_locator }
}

fn header_roundtrip(v: u8) {
    let h = any_header(v);
    let mut out: Vec<u8> = Vec::with_capacity(160);
    match crate::encode::verif_encode_header(&h, &mut out) {
        Ok(()) => {}
        Err(e) => {
            core::mem::forget(e);
            assert!(false, "a well-formed header always encodes");
            return;
        }
    }
    assert!(out.len() == BlpHeader::size(h.version), "encoded header has the size of its version");
    match parse_header(&out) {
        Ok(p) => {
            assert!(p.version == h.version && p.content == h.content && p.width == h.width && p.height == h.height, "version, content kind and dimensions survive");
            assert!(p.flags == h.flags, "flags (alpha depth/type, compression, extra, mipmap flag) survive");
            match (p.mipmap_locator, h.mipmap_locator) {
                (MipmapLocator::External, MipmapLocator::External) => {}
                (MipmapLocator::Internal { offsets: po, sizes: ps }, MipmapLocator::Internal { offsets: ho, sizes: hs }) => {
                    let i: usize = kani::any();
                    kani::assume(i < 16);
                    assert!(po[i] == ho[i] && ps[i] == hs[i], "every locator entry survives");
                }
                _ => assert!(false, "locator kind survives"),
            }
        }
        Err(e) => {
            core::mem::forget(e);
            assert!(false, "an encoded header always parses");
        }
    }
}

// @harness unit=U16.2 props=C16 kind=complete timeout=900 target="encode/mod.rs: encode_header; parser/header.rs: parse_header - BLP0 (every content kind, alpha depth, extra/mipmap flag, dimension <= 65535)" oracle=blp_header
#[kani::proof]
#[kani::unwind(20)]
#[kani::stub(alloc::fmt::format, stub_format)]
fn u16_2_header_codec_blp0() {
    header_roundtrip(0);
}

// @harness unit=U16.2 props=C16 kind=complete timeout=900 target="encode_header / parse_header - BLP1 (every flag value, dimension, locator table)" oracle=blp_header
#[kani::proof]
#[kani::unwind(20)]
#[kani::stub(alloc::fmt::format, stub_format)]
fn u16_2_header_codec_blp1() {
    header_roundtrip(1);
}

// @harness unit=U16.2 props=C16 kind=complete timeout=900 target="encode_header / parse_header - BLP2 (every compression, alpha depth/type, mipmap flag, dimension, locator table)" oracle=blp_header
#[kani::proof]
#[kani::unwind(20)]
#[kani::stub(alloc::fmt::format, stub_format)]
fn u16_2_header_codec_blp2() {
    header_roundtrip(2);
}

// @harness unit=U05.9 props=C05 kind=complete timeout=900 target="parser/header.rs: parse_header on arbitrary bytes (<= 160 bytes, all values)" oracle=blp_total
#[kani::proof]
#[kani::unwind(20)]
#[kani::stub(alloc::fmt::format, stub_format)]
fn u05_9_parse_header_total() {
    let buf: [u8; 160] = kani::any();
    let len: usize = kani::any();
    kani::assume(len <= 160);
    match parse_header(&buf[..len]) {
        Ok(h) => core::mem::forget(h),
        Err(e) => core::mem::forget(e),
    }
}

// ------------------------------------------------------------------------------------ U16.4 alpha bit packing (E11 blocks of convert/raw1.rs)
fn any_pixels(n: usize) -> Vec<[u8; 4]> {
    let mut v: Vec<[u8; 4]> = Vec::with_capacity(10);
    let mut i = 0;
    while i < n {
        v.push([0, 0, 0, kani::any()]);
        i += 1;
    }
    v
}

// packing law used by the reader (raw1_to_image): bit i%8 of byte i/8; plane length = ceil(n/8)
// @harness unit=U16.4 props=C16 kind=bounded bound="1..=10 pixels (partial last byte included)" timeout=900 target="convert/raw1.rs: index_alpha_1bit packing loop (E11 block; image.pixels() replaced by a pixel vector)" oracle=blp_alpha
#[kani::proof]
#[kani::unwind(12)]
#[kani::stub(alloc::fmt::format, stub_format)]
fn u16_4_alpha_1bit_pack() {
    let n: usize = kani::any();
    kani::assume(n >= 1 && n <= 10);
    let px = any_pixels(n);
    let mut res: Vec<u8> = Vec::with_capacity(4);
    blk_pack_alpha_1bit(&px, &mut res);
    assert!(res.len() == (n + 7) / 8, "alpha plane has ceil(n/8) bytes");
    let i: usize = kani::any();
    kani::assume(i < n);
    let bit = (res[i / 8] >> (i % 8)) & 1;
    assert!((bit == 1) == (px[i][3] > 0), "bit i is the alpha of pixel i quantised to 1 bit");
}

// @harness unit=U16.4 props=C16 kind=bounded bound="1..=6 pixels (partial last byte included)" timeout=900 target="convert/raw1.rs: index_alpha_4bit packing loop (E11 block)" oracle=blp_alpha
#[kani::proof]
#[kani::unwind(8)]
#[kani::stub(alloc::fmt::format, stub_format)]
fn u16_4_alpha_4bit_pack() {
    let n: usize = kani::any();
    kani::assume(n >= 1 && n <= 6);
    let px = any_pixels(n);
    let mut res: Vec<u8> = Vec::with_capacity(4);
    blk_pack_alpha_4bit(&px, &mut res);
    assert!(res.len() == (n + 1) / 2, "alpha plane has ceil(n/2) bytes");
    let i: usize = kani::any();
    kani::assume(i < n);
    let nib = if i % 2 == 0 { res[i / 2] & 0x0F } else { res[i / 2] >> 4 };
    // quantised to 16 levels: round(a * 15 / 255)
    let a = px[i][3] as u32;
    let want = ((a * 15 * 2 + 255) / (255 * 2)) as u8;
    assert!(nib == want, "nibble i is the alpha of pixel i quantised to 4 bits");
}

// ------------------------------------------------------------------------------------ U05.9 JPEG content locator walk
fn no_ext<'a>(_: usize) -> Result<Option<&'a [u8]>, Box<dyn std::error::Error>> {
    Ok(None)
}

// @harness unit=U05.9 props=C05 kind=complete timeout=600 target="parser/jpeg.rs: JPEG header-size read (E11 block): every u32 header size, content <= 8 bytes" oracle=blp_total
#[kani::proof]
#[kani::unwind(12)]
#[kani::stub(alloc::fmt::format, stub_format)]
fn u05_9_jpeg_header_size_total() {
    let content: [u8; 8] = kani::any();
    let clen: usize = kani::any();
    kani::assume(clen <= 8);
    match blk_jpeg_header_read(&content[..clen]) {
        Ok(hd) => {
            assert!(clen >= 4 && hd.len() == u32::from_le_bytes([content[0], content[1], content[2], content[3]]) as usize + 2, "header is header_size + 2 bytes");
            core::mem::forget(hd)
        }
        Err(e) => core::mem::forget(e),
    }
}

// The depth the content parsers read alpha with is the header's declared depth: BlpFlags::alpha_bits() returns the stored
// alpha_bits field (BLP2 with a palettised / DXT / JPEG body, and every BLP0/BLP1 header), has_mipmaps() the stored flag,
// alpha_type() the stored type.  (BLP2 Raw3 reports a fixed depth; left unconstrained here.)  Loop-free, full field domains.
// @harness unit=U16.2 props=C16 kind=complete timeout=300 target="types/header.rs: BlpFlags::alpha_bits, has_mipmaps, alpha_type; BlpHeader::alpha_bits" oracle=blp_alpha
#[kani::proof]
#[kani::unwind(4)]
#[kani::stub(alloc::fmt::format, stub_format)]
fn u16_2_flags_accessors() {
    let v: u8 = kani::any();
    kani::assume(v < 3);
    let h = any_header(v);
    match h.flags {
        BlpFlags::Blp2 { compression, alpha_bits, alpha_type, has_mipmaps } => {
            if compression != Compression::Raw3 {
                assert!(h.flags.alpha_bits() == alpha_bits as u32, "BLP2: declared alpha depth is the stored alpha_bits");
                assert!(h.alpha_bits() == alpha_bits as u32, "BLP2 header accessor agrees");
            }
            assert!(h.flags.has_mipmaps() == (has_mipmaps != 0), "BLP2: mipmap flag");
            assert!(h.flags.alpha_type() == Some(alpha_type), "BLP2: alpha type");
        }
        BlpFlags::Old { alpha_bits, has_mipmaps, .. } => {
            assert!(h.flags.alpha_bits() == alpha_bits, "BLP0/1: declared alpha depth is the stored alpha_bits");
            assert!(h.flags.has_mipmaps() == (has_mipmaps != 0), "BLP0/1: mipmap flag");
            assert!(h.flags.alpha_type().is_none(), "BLP0/1: no alpha type");
        }
    }
}


// the packed alpha plane of a RAW1 level: the readers (BLP1/2 with locator, BLP0 external mips) take ceil(n * depth / 8)
// bytes - the byte count the packing loops of the encoder produce (u16_4_*), so a partly filled last byte is not dropped
// @harness unit=U16.5 props=C16,C05 kind=complete timeout=300 target="parser/direct/blp1.rs: parse_raw1 and blp0.rs: parse_raw1_image alpha plane length (E11 blocks), all pixel counts and headers" oracle=blp_alpha
#[kani::proof]
#[kani::unwind(4)]
#[kani::stub(alloc::fmt::format, stub_format)]
fn u16_5_raw1_alpha_plane_length() {
    let v: u8 = kani::any();
    kani::assume(v < 3);
    let h = any_header(v);
    let n: u32 = kani::any();
    let bits = h.alpha_bits() as u64;
    let want = (n as u64 * bits + 7) / 8;
    assert!(blk_raw1_alpha_len_blp1(&h, n) == want, "locator reader: alpha plane = ceil(pixels * depth / 8) bytes");
    assert!(blk_raw1_alpha_len_blp0(&h, n) == want, "BLP0 reader: alpha plane = ceil(pixels * depth / 8) bytes");
}


// a DXT level is stored as whole 4x4 blocks, each dimension rounded up separately: the reader expects exactly the byte
// count the encoder emits (ceil(w/4) * ceil(h/4) * block size), for every header and level, without overflow (F31)
// @harness unit=U16.6 props=C16,C05 kind=complete timeout=600 target="parser/direct/blp2.rs: parse_dxtn expected level size (E11 block), all dimensions / levels / DXT kinds" oracle=blp_header
#[kani::proof]
#[kani::unwind(4)]
#[kani::stub(alloc::fmt::format, stub_format)]
fn u16_6_dxtn_level_bytes() {
    let h = any_header(2);
    let i: usize = kani::any();
    kani::assume(i < 16);
    let k: u8 = kani::any();
    let (fmt, bs) = match k % 3 { 0 => (DxtnFormat::Dxt1, 8u128), 1 => (DxtnFormat::Dxt3, 16u128), _ => (DxtnFormat::Dxt5, 16u128) };
    let (w, hh) = h.mipmap_size(i);
    let want = ((w as u128 + 3) / 4) * ((hh as u128 + 3) / 4) * bs;
    let got = blk_dxtn_level_bytes(&h, fmt, i);
    assert!(want > usize::MAX as u128 || got as u128 == want, "expected level size = ceil(w/4) * ceil(h/4) * block size");
}
