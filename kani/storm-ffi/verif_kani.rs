//! Kani harnesses for storm-ffi (copied into the scratch copy as src/verif_kani.rs by /verif/check).
#![allow(unused_imports, dead_code)]
use crate::*;
use std::ffi::c_void;

pub fn stub_format(_args: core::fmt::Arguments<'_>) -> String {
    String::new()
}
include!("verif_blocks.rs");

fn any_file(maxlen: usize) -> FileHandle {
    let len: usize = kani::any();
    kani::assume(len <= maxlen);
    let mut data: Vec<u8> = Vec::with_capacity(4);
    let mut i = 0;
    while i < len {
        data.push(kani::any());
        i += 1;
    }
    let position: usize = kani::any();
    kani::assume(position <= len); // representation invariant of FileHandle
    FileHandle { archive_handle: 1, filename: String::new(), data, position, size: len as u64 }
}

// ------------------------------------------------------------------------------------ U19.2 handles
// @harness unit=U19.2 props=C19 kind=complete timeout=120 target="lib.rs: handle_to_id, id_to_handle (every pointer value)" oracle=ffi_cursor
#[kani::proof]
#[kani::unwind(4)]
#[kani::stub(alloc::fmt::format, stub_format)]
fn u19_2_handle_conversion() {
    let raw: usize = kani::any();
    let h = raw as HANDLE;
    match handle_to_id(h) {
        None => assert!(raw == 0, "only the null handle is rejected here"),
        Some(id) => {
            assert!(raw != 0, "null is never a valid id");
            assert!(id == raw, "the id is the full handle value (no truncation: forged handles must not alias live ids)");
            assert!(id_to_handle(id) as usize == raw, "id_to_handle inverts handle_to_id");
        }
    }
}

// ------------------------------------------------------------------------------------ U19.1 cursor arithmetic (E11 blocks)
// @harness unit=U19.1 props=C19 kind=bounded bound="file data <= 3 bytes, caller buffer of exactly to_read <= 4 bytes; all cursor positions and request sizes" timeout=600 target="lib.rs: SFileReadFile cursor/copy block (E11)" oracle=ffi_cursor
#[kani::proof]
#[kani::unwind(6)]
#[kani::stub(alloc::fmt::format, stub_format)]
fn u19_1_read_cursor() {
    let mut fh = any_file(3);
    let len = fh.data.len();
    let pos0 = fh.position;
    let to_read: u32 = kani::any();
    kani::assume(to_read <= 4);
    let mut buf = [0xEEu8; 4];
    let mut got: u32 = 77;
    // Kani's pointer checks guard the copy: the buffer handed in has room for exactly `to_read` bytes
    let ok = unsafe { blk_read_cursor(&mut fh, buf[..to_read as usize].as_mut_ptr() as *mut c_void, to_read, &mut got as *mut u32) };
    assert!(ok);
    let remaining = len - pos0;
    let want = if (to_read as usize) < remaining { to_read as usize } else { remaining };
    assert!(got as usize == want, "*read == min(to_read, remaining)");
    assert!(fh.position == pos0 + want, "cursor advances by the bytes actually read");
    assert!(fh.position <= len, "cursor stays inside the data");
    let i: usize = kani::any();
    kani::assume(i < want);
    assert!(buf[i] == fh.data[pos0 + i], "bytes copied are the file bytes at the cursor");
    core::mem::forget(fh);
}

// @harness unit=U19.1 props=C19 kind=complete timeout=600 target="lib.rs: SFileSetFilePointer position block (E11): every i32 low/high part, every move method, every cursor/length" oracle=ffi_cursor
#[kani::proof]
#[kani::unwind(4)]
#[kani::stub(alloc::fmt::format, stub_format)]
fn u19_1_seek_cursor() {
    // only position and data.len() enter the arithmetic: an empty Vec with symbolic capacity is not expressible,
    // so the length is covered through a (possibly huge) symbolic length on a zero-sized element vector
    let len: usize = kani::any();
    let position: usize = kani::any();
    kani::assume(len <= isize::MAX as usize && position <= len);
    let mut fh = FileHandleLen { data: LenOnly { n: len }, position };
    let file_pos: i32 = kani::any();
    let mut high: i32 = kani::any();
    let use_high: bool = kani::any();
    let method: u32 = kani::any();
    let hp = if use_high { &mut high as *mut i32 } else { core::ptr::null_mut() };
    let high0 = high;
    let _ = unsafe { blk_seek_cursor_len(&mut fh, file_pos, hp, method) };
    assert!(fh.position <= len, "cursor stays inside the data after any seek");
    // an in-range target is reached exactly: for a 64-bit offset given either as the low part alone or as a
    // (low, high) pair that is the two halves of one sign-extended value, base + offset inside [0, len] is the new cursor
    let consistent = !use_high || (high0 == -1 && file_pos < 0) || (high0 == 0 && file_pos >= 0);
    if consistent && method <= 2 {
        let base: i128 = if method == 0 { 0 } else if method == 1 { position as i128 } else { len as i128 };
        let target = base + file_pos as i128;
        if target >= 0 && target <= len as i128 {
            assert!(fh.position as i128 == target, "a seek to a position inside the file lands exactly there");
        }
    }
    if method > 2 {
        assert!(fh.position == position, "an unknown move method leaves the cursor alone");
    }
}

/// length-only stand-in for FileHandle.data in the seek block (the block uses data.len() only)
pub struct LenOnly {
    pub n: usize,
}
impl LenOnly {
    pub fn len(&self) -> usize {
        self.n
    }
}
pub struct FileHandleLen {
    pub data: LenOnly,
    pub position: usize,
}

/// size-only stand-in for FileHandle in the SFileGetFileSize block (the block reads .size only)
pub struct SizeOnly {
    pub size: u64,
}

// @harness unit=U19.1 props=C19 kind=complete timeout=120 target="lib.rs: SFileGetFileSize size-splitting block (E11): every u64 size, high pointer null or not" oracle=ffi_cursor
#[kani::proof]
#[kani::unwind(4)]
#[kani::stub(alloc::fmt::format, stub_format)]
fn u19_1_get_size_high() {
    let fh = SizeOnly { size: kani::any() };
    let mut high: u32 = kani::any();
    let high0 = high;
    let use_high: bool = kani::any();
    let hp = if use_high { &mut high as *mut u32 } else { core::ptr::null_mut() };
    let size = unsafe { blk_get_size(&fh, hp) };
    assert!(size == fh.size, "the size reported is the handle's size");
    if use_high {
        assert!(high == (fh.size >> 32) as u32, "*high always receives the upper 32 bits (0 for small files)");
    } else {
        assert!(high == high0, "a null high pointer is not written through");
    }
}

// ------------------------------------------------------------------------------------ U19.3 caller-buffer writes (E11 blocks)
/// stand-in for ArchiveHandle in the name-copy block (the block calls .path() only)
pub struct PathOnly<'a> {
    pub p: &'a str,
}
impl<'a> PathOnly<'a> {
    pub fn path(&self) -> &str {
        self.p
    }
}

fn small_ascii(maxlen: usize) -> String {
    let len: usize = kani::any();
    kani::assume(len <= maxlen);
    let mut s = String::with_capacity(4);
    let mut i = 0;
    while i < len {
        let c: u8 = kani::any();
        kani::assume(c < 0x80);
        s.push(c as char);
        i += 1;
    }
    s
}

// SFileGetArchiveName: succeeds exactly when name + terminator fit the caller's buffer, writes the name and one NUL, and never
// touches a byte at or beyond buffer_size (canary bytes inside the same object + Kani's pointer checks at its end)
// @harness unit=U19.3 props=C19 kind=bounded bound="archive path <= 2 ASCII bytes (NUL included), caller buffer 1..4 bytes" timeout=600 target="lib.rs: SFileGetArchiveName name-copy statements (E11 block)" oracle=ffi_cursor
#[kani::proof]
#[kani::unwind(8)]
#[kani::stub(alloc::fmt::format, stub_format)]
fn u19_3_archive_name_copy() {
    let raw: [u8; 2] = kani::any();
    kani::assume(raw[0] < 0x80 && raw[1] < 0x80);
    let n: usize = kani::any();
    kani::assume(n <= 2);
    let h = PathOnly { p: unsafe { core::str::from_utf8_unchecked(&raw[..n]) } };
    let has_nul = (n >= 1 && raw[0] == 0) || (n >= 2 && raw[1] == 0);
    let size: u32 = kani::any();
    kani::assume(size >= 1 && size <= 4); // the function has rejected a null buffer and size 0 before these statements
    let mut buf = [0xEEu8; 5];
    let ok = unsafe { blk_archive_name_copy(&h, buf.as_mut_ptr() as *mut c_char, size) };
    assert!(ok == (!has_nul && n + 1 <= size as usize), "success exactly when the name and its terminator fit");
    let j: usize = kani::any();
    kani::assume(j < 5);
    if j >= size as usize || !ok {
        assert!(buf[j] == 0xEE, "no byte at or beyond buffer_size is written; nothing is written on failure");
    } else if j < n {
        assert!(buf[j] == raw[j], "name bytes in order");
    } else if j == n {
        assert!(buf[j] == 0, "terminated");
    }
}

// get_file_info (whole function): the only classes answered are size and position, each needs 8 bytes, *size_needed is
// told, and a buffer shorter than that is never written
// @harness unit=U19.3 props=C19 kind=complete timeout=600 target="lib.rs: get_file_info (whole function; every class, buffer size, size and cursor value)" oracle=ffi_cursor
#[kani::proof]
#[kani::unwind(4)]
#[kani::stub(alloc::fmt::format, stub_format)]
fn u19_3_get_file_info() {
    let fh = FileHandle { archive_handle: 1, filename: String::new(), data: Vec::new(), position: kani::any(), size: kani::any() };
    let class: u32 = kani::any();
    let size: u32 = kani::any();
    let mut buf = [0xEEEE_EEEE_EEEE_EEEEu64; 2];
    let mut needed: u32 = 77;
    let use_needed: bool = kani::any();
    let np = if use_needed { &mut needed as *mut u32 } else { core::ptr::null_mut() };
    let ok = unsafe { get_file_info(&fh, class, buf.as_mut_ptr() as *mut c_void, size, np) };
    let known = class == SFILE_INFO_FILE_SIZE || class == SFILE_INFO_POSITION;
    assert!(ok == (known && size >= 8), "answered exactly when the class is known and 8 bytes fit");
    if ok {
        assert!(buf[0] == if class == SFILE_INFO_FILE_SIZE { fh.size } else { fh.position as u64 }, "the value asked for");
    } else {
        assert!(buf[0] == 0xEEEE_EEEE_EEEE_EEEE, "a refused call writes nothing");
    }
    assert!(buf[1] == 0xEEEE_EEEE_EEEE_EEEE, "never more than 8 bytes");
    assert!(needed == if known && use_needed { 8 } else { 77 }, "*size_needed receives 8 for a known class");
    core::mem::forget(fh);
}

/// stand-ins for FindHandle / FileEntry in the scan loop of SFileFindNextFile (uses file_list, current_index, matches_mask, .name)
pub struct ScanEntry {
    pub name: &'static str,
    pub id: usize,
}
pub struct FindScan {
    pub file_list: Vec<ScanEntry>,
    pub current_index: usize,
}
impl FindScan {
    fn matches_mask(&self, name: &str) -> bool {
        name.len() == 1
    }
}

// SFileFindNextFile scan loop: returns the first entry at or after the cursor that matches the mask and leaves the cursor just
// behind it; with no such entry it reports the end and parks the cursor at the end.  Two calls in a row never return one entry twice.
// @harness unit=U19.3 props=C19 kind=bounded bound="file lists of <= 4 entries, every match pattern and cursor" timeout=600 target="lib.rs: SFileFindNextFile scan loop (E11 block)" oracle=ffi_cursor
#[kani::proof]
#[kani::unwind(7)]
#[kani::stub(alloc::fmt::format, stub_format)]
fn u19_3_find_next_scan() {
    let n: usize = kani::any();
    kani::assume(n <= 4);
    let m: [bool; 4] = kani::any();
    let mut list = Vec::with_capacity(4);
    let mut i = 0;
    while i < n {
        list.push(ScanEntry { name: if m[i] { "m" } else { "" }, id: i });
        i += 1;
    }
    let c0: usize = kani::any();
    kani::assume(c0 <= n);
    let mut fs = FindScan { file_list: list, current_index: c0 };
    let r1 = blk_find_next_scan(&mut fs);
    let mut first = n;
    let mut k = n;
    while k > c0 {
        k -= 1;
        if m[k] { first = k; }
    }
    match r1 {
        Some(id) => { assert!(first < n && id == first, "the first matching entry at or after the cursor"); assert!(fs.current_index == first + 1, "cursor just behind the entry returned"); }
        None => { assert!(first == n, "the end is reported only when nothing matches any more"); assert!(fs.current_index == n, "cursor parked at the end"); }
    }
    let r2 = blk_find_next_scan(&mut fs);
    if let (Some(a), Some(b)) = (r1, r2) {
        assert!(b > a, "no entry is returned twice");
    }
    core::mem::forget(fs);
}

/// stand-in for the three global tables (Mutex<HashMap<usize, _>>) in the body of SFileCloseArchive: an association list with the
/// two HashMap methods the statements use; entry = (handle id, id of the owning archive)
pub struct OwnedBy {
    pub archive_handle: usize,
}
pub struct Assoc {
    pub e: [(usize, OwnedBy, bool); 2],
}
impl Assoc {
    pub fn retain<F: FnMut(&usize, &mut OwnedBy) -> bool>(&mut self, mut f: F) {
        let mut i = 0;
        while i < 2 {
            if self.e[i].2 {
                let keep = f(&self.e[i].0, &mut self.e[i].1);
                self.e[i].2 = keep;
            }
            i += 1;
        }
    }
    pub fn remove(&mut self, k: &usize) -> Option<usize> {
        let mut i = 0;
        while i < 2 {
            if self.e[i].2 && self.e[i].0 == *k {
                self.e[i].2 = false;
                return Some(i);
            }
            i += 1;
        }
        None
    }
    fn any() -> Assoc {
        let a = Assoc { e: [(kani::any(), OwnedBy { archive_handle: kani::any() }, kani::any()), (kani::any(), OwnedBy { archive_handle: kani::any() }, kani::any())] };
        kani::assume(!(a.e[0].2 && a.e[1].2 && a.e[0].0 == a.e[1].0)); // keys are unique
        a
    }
}

// SFileCloseArchive body: closing archive A removes A, every open-file handle and every search handle owned by A, and nothing else
// @harness unit=U19.3 props=C19 kind=bounded bound="tables of <= 2 live entries each (association-list stand-in for the three HashMaps), every handle value" timeout=600 target="lib.rs: SFileCloseArchive (E11 block: the whole body, global tables replaced by association lists)" oracle=ffi_cursor
#[kani::proof]
#[kani::unwind(4)]
#[kani::stub(alloc::fmt::format, stub_format)]
fn u19_3_close_archive_purges_own_handles() {
    let raw: usize = kani::any();
    let mut files = Assoc::any();
    let mut finds = Assoc::any();
    let mut archives = Assoc::any();
    let live0 = [files.e[0].2, files.e[1].2, finds.e[0].2, finds.e[1].2, archives.e[0].2, archives.e[1].2];
    let was_open = raw != 0 && ((archives.e[0].2 && archives.e[0].0 == raw) || (archives.e[1].2 && archives.e[1].0 == raw));
    let ok = blk_close_archive_purge(raw as HANDLE, &mut files, &mut finds, &mut archives);
    assert!(ok == was_open, "closing succeeds exactly for a live archive handle");
    let i: usize = kani::any();
    kani::assume(i < 2);
    if was_open {
        assert!(files.e[i].2 == (live0[i] && files.e[i].1.archive_handle != raw), "exactly the open files of the closed archive are invalidated");
        assert!(finds.e[i].2 == (live0[2 + i] && finds.e[i].1.archive_handle != raw), "exactly the search handles of the closed archive are invalidated");
        assert!(archives.e[i].2 == (live0[4 + i] && archives.e[i].0 != raw), "exactly the closed archive leaves the table");
    }
    if raw == 0 {
        assert!(files.e[i].2 == live0[i] && finds.e[i].2 == live0[2 + i] && archives.e[i].2 == live0[4 + i], "a null handle changes nothing");
    }
}
