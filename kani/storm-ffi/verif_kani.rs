//! Kani harnesses for storm-ffi (copied into the scratch copy as src/verif_kani.rs by /verif/check).
#![allow(unused_imports, dead_code)]
use crate::*;
use std::ffi::c_void;

pub fn stub_format(_args: core::fmt::Arguments<'_>) -> String {
    String::new()
}
include!("verif_blocks.rs");

fn any_file(maxlen: usize) -> FileHandle {
    let len: usize = kani::any();
    kani::assume(len <= maxlen);
    let mut data: Vec<u8> = Vec::with_capacity(4);
    let mut i = 0;
    while i < len {
        data.push(kani::any());
        i += 1;
    }
    let position: usize = kani::any();
    kani::assume(position <= len); // representation invariant of FileHandle
    FileHandle { archive_handle: 1, filename: String::new(), data, position, size: len as u64 }
}

// ------------------------------------------------------------------------------------ U19.2 handles
// @harness unit=U19.2 props=C19 kind=complete timeout=120 target="lib.rs: handle_to_id, id_to_handle (every pointer value)" oracle=ffi_cursor
#[kani::proof]
#[kani::unwind(4)]
#[kani::stub(alloc::fmt::format, stub_format)]
fn u19_2_handle_conversion() {
    let raw: usize = kani::any();
    let h = raw as HANDLE;
    match handle_to_id(h) {
        None => assert!(raw == 0, "only the null handle is rejected here"),
        Some(id) => {
            assert!(raw != 0, "null is never a valid id");
            assert!(id == raw, "the id is the full handle value (no truncation: forged handles must not alias live ids)");
            assert!(id_to_handle(id) as usize == raw, "id_to_handle inverts handle_to_id");
        }
    }
}

// ------------------------------------------------------------------------------------ U19.1 cursor arithmetic (E11 blocks)
// @harness unit=U19.1 props=C19 kind=bounded bound="file data <= 3 bytes, caller buffer of exactly to_read <= 4 bytes; all cursor positions and request sizes" timeout=600 target="lib.rs: SFileReadFile cursor/copy block (E11)" oracle=ffi_cursor
#[kani::proof]
#[kani::unwind(6)]
#[kani::stub(alloc::fmt::format, stub_format)]
fn u19_1_read_cursor() {
    let mut fh = any_file(3);
    let len = fh.data.len();
    let pos0 = fh.position;
    let to_read: u32 = kani::any();
    kani::assume(to_read <= 4);
    let mut buf = [0xEEu8; 4];
    let mut got: u32 = 77;
    // Kani's pointer checks guard the copy: the buffer handed in has room for exactly `to_read` bytes
    let ok = unsafe { blk_read_cursor(&mut fh, buf[..to_read as usize].as_mut_ptr() as *mut c_void, to_read, &mut got as *mut u32) };
    assert!(ok);
    let remaining = len - pos0;
    let want = if (to_read as usize) < remaining { to_read as usize } else { remaining };
    assert!(got as usize == want, "*read == min(to_read, remaining)");
    assert!(fh.position == pos0 + want, "cursor advances by the bytes actually read");
    assert!(fh.position <= len, "cursor stays inside the data");
    let i: usize = kani::any();
    kani::assume(i < want);
    assert!(buf[i] == fh.data[pos0 + i], "bytes copied are the file bytes at the cursor");
    core::mem::forget(fh);
}

// @harness unit=U19.1 props=C19 kind=complete timeout=600 target="lib.rs: SFileSetFilePointer position block (E11): every i32 low/high part, every move method, every cursor/length" oracle=ffi_cursor
#[kani::proof]
#[kani::unwind(4)]
#[kani::stub(alloc::fmt::format, stub_format)]
fn u19_1_seek_cursor() {
    // only position and data.len() enter the arithmetic: an empty Vec with symbolic capacity is not expressible,
    // so the length is covered through a (possibly huge) symbolic length on a zero-sized element vector
    let len: usize = kani::any();
    let position: usize = kani::any();
    kani::assume(len <= isize::MAX as usize && position <= len);
    let mut fh = FileHandleLen { data: LenOnly { n: len }, position };
    let file_pos: i32 = kani::any();
    let mut high: i32 = kani::any();
    let use_high: bool = kani::any();
    let method: u32 = kani::any();
    let hp = if use_high { &mut high as *mut i32 } else { core::ptr::null_mut() };
    let high0 = high;
    let _ = unsafe { blk_seek_cursor_len(&mut fh, file_pos, hp, method) };
    assert!(fh.position <= len, "cursor stays inside the data after any seek");
    // an in-range target is reached exactly: for a 64-bit offset given either as the low part alone or as a
    // (low, high) pair that is the two halves of one sign-extended value, base + offset inside [0, len] is the new cursor
    let consistent = !use_high || (high0 == -1 && file_pos < 0) || (high0 == 0 && file_pos >= 0);
    if consistent && method <= 2 {
        let base: i128 = if method == 0 { 0 } else if method == 1 { position as i128 } else { len as i128 };
        let target = base + file_pos as i128;
        if target >= 0 && target <= len as i128 {
            assert!(fh.position as i128 == target, "a seek to a position inside the file lands exactly there");
        }
    }
    if method > 2 {
        assert!(fh.position == position, "an unknown move method leaves the cursor alone");
    }
}

/// length-only stand-in for FileHandle.data in the seek block (the block uses data.len() only)
pub struct LenOnly {
    pub n: usize,
}
impl LenOnly {
    pub fn len(&self) -> usize {
        self.n
    }
}
pub struct FileHandleLen {
    pub data: LenOnly,
    pub position: usize,
}

/// size-only stand-in for FileHandle in the SFileGetFileSize block (the block reads .size only)
pub struct SizeOnly {
    pub size: u64,
}

// @harness unit=U19.1 props=C19 kind=complete timeout=120 target="lib.rs: SFileGetFileSize size-splitting block (E11): every u64 size, high pointer null or not" oracle=ffi_cursor
#[kani::proof]
#[kani::unwind(4)]
#[kani::stub(alloc::fmt::format, stub_format)]
fn u19_1_get_size_high() {
    let fh = SizeOnly { size: kani::any() };
    let mut high: u32 = kani::any();
    let high0 = high;
    let use_high: bool = kani::any();
    let hp = if use_high { &mut high as *mut u32 } else { core::ptr::null_mut() };
    let size = unsafe { blk_get_size(&fh, hp) };
    assert!(size == fh.size, "the size reported is the handle's size");
    if use_high {
        assert!(high == (fh.size >> 32) as u32, "*high always receives the upper 32 bits (0 for small files)");
    } else {
        assert!(high == high0, "a null high pointer is not written through");
    }
}
