use vstd::prelude::*;
verus! {

#[verifier::external_type_specification]
#[verifier::external_body]
pub struct ExError(Error);
type Result<T> = core::result::Result<T, Error>;

#[verifier::external_body]
fn err_invalid_format(msg: &str) -> Error { Error { msg: String::new() } }

#[derive(Clone, Copy)]
struct HashEntry {
    name_1: u32,
    name_2: u32,
    locale: u16,
    platform: u16,
    block_index: u32,
}

impl HashEntry {
    const EMPTY_NEVER_USED: u32 = 0xFFFFFFFF;
    fn is_empty(&self) -> (r: bool) ensures r == (self.block_index == 0xFFFFFFFFu32) {
        self.block_index == Self::EMPTY_NEVER_USED
    }
}

struct HashTable {
    entries: Vec<HashEntry>,
    mask: usize,
}

impl HashTable {
    fn size(&self) -> (r: usize) ensures r == self.entries@.len() {
        self.entries.len()
    }
    fn get_mut(&mut self, index: usize) -> (r: Option<&mut HashEntry>)
        ensures index < old(self).entries@.len() <==> r.is_some()
    {
        self.entries.get_mut(index)
    }
}

#[verifier::exec_allows_no_decreases_clause]
fn add(hash_table: &mut HashTable, table_offset: u32, name_a: u32, name_b: u32, block_index: u32, locale: u16) -> (res: Result<()>)
    requires old(hash_table).entries@.len() > 0, old(hash_table).entries@.len() <= 0x1000_0000,
{
    let table_size = hash_table.size() as u32;
    let mut index = table_offset & (table_size - 1);

    loop
        invariant hash_table.entries@.len() == table_size, table_size > 0
    {
        let entry = hash_table
            .get_mut(index as usize)
            .ok_or_else(|| err_invalid_format("Hash table index out of bounds"))?;

        if entry.is_empty() {
            *entry = HashEntry {
                name_1: name_a,
                name_2: name_b,
                locale,
                platform: 0,
                block_index,
            };
            break;
        }
        index = (index + 1) & (table_size - 1);
    }
    Ok(())
}

}
#[derive(Debug)]
pub struct Error { msg: String }
fn main() {}
