use vstd::prelude::*;
verus! {

fn inc_all(data: &mut [u32])
    ensures final(data)@.len() == old(data)@.len(),
        forall|i: int| 0 <= i < old(data)@.len() ==> #[trigger] final(data)@[i] == old(data)@[i] ^ 1u32,
{
    let ghost n = data@.len();
    let ghost orig = data@;
    for value in it: data.iter_mut()
        invariant
            it.seq().len() == n,
            forall|i: int| 0 <= i < n ==> *(#[trigger] it.seq()[i]) == orig[i],
            forall|i: int| 0 <= i < it.index@ ==> *final(#[trigger] it.seq()[i]) == orig[i] ^ 1u32,
    {
        let ch = *value ^ 1;
        *value = ch;
    }
}

} // verus!
fn main() {}
