use vstd::prelude::*;
use vstd::string::*;
verus! {
pub uninterp spec fn tspec(i: int) -> u32;

#[verifier::external_body]
const fn generate_encryption_table() -> (table: [u32; 0x500])
    ensures forall|i: int| 0 <= i < 0x500 ==> table[i] == tspec(i)
{ [0u32; 0x500] }

exec const ENCRYPTION_TABLE: [u32; 0x500]
    ensures forall|i: int| 0 <= i < 0x500 ==> ENCRYPTION_TABLE[i] == tspec(i)
{ generate_encryption_table() }

pub open spec fn fold(b: u8) -> u8 { let c = if b == 0x2F { 0x5Cu8 } else { b }; if 0x61 <= c <= 0x7A { (c - 0x20) as u8 } else { c } }

exec const ASCII_TO_UPPER: [u8; 4] ensures ASCII_TO_UPPER@.len() == 4 { [0x00, 0x01, 0x02, 0x03] }

pub open spec fn hspec(s: Seq<u8>, t: u32, s1: u32, s2: u32) -> u32
    decreases s.len()
{
    if s.len() == 0 { s1 } else {
        let ch = fold(s[0]);
        let n1 = tspec((t + ch as u32) as int) ^ s1.wrapping_add(s2);
        let n2 = (ch as u32).wrapping_add(n1).wrapping_add(s2).wrapping_add(s2 << 5u32).wrapping_add(3u32);
        hspec(s.skip(1), t, n1, n2)
    }
}

#[verifier::external_body]
fn upper(b: u8) -> (r: u8) ensures r == (if 0x61 <= b <= 0x7A { (b - 0x20) as u8 } else { b }) { unimplemented!() }

fn hash_string(filename: &str, hash_type: u32) -> (r: u32)
    requires hash_type <= 0x400
    ensures r == hspec(filename.spec_bytes(), hash_type, 0x7FED7FEDu32, 0xEEEEEEEEu32)
{
    let mut seed1: u32 = 0x7FED7FED;
    let mut seed2: u32 = 0xEEEEEEEE;
    let ghost all = filename.spec_bytes();

    proof { assert(all.skip(0) =~= all); }
    for byte__r in it: filename.as_bytes()
        invariant
            hash_type <= 0x400,
            it.seq().len() == all.len(),
            forall|i: int| 0 <= i < all.len() ==> *(#[trigger] it.seq()[i]) == all[i],
            hspec(all, hash_type, 0x7FED7FEDu32, 0xEEEEEEEEu32) == hspec(all.skip(it.index@), hash_type, seed1, seed2),
    {
        let byte = *byte__r;
        proof { assert(all.skip(it.index@).skip(1) =~= all.skip(it.index@ + 1)); }
        let mut ch = byte;
        if ch == b'/' {
            ch = b'\\';
        }
        ch = upper(ch);
        let table_idx = hash_type.wrapping_add(ch as u32) as usize;
        seed1 = ENCRYPTION_TABLE[table_idx] ^ (seed1.wrapping_add(seed2));
        seed2 = (ch as u32)
            .wrapping_add(seed1)
            .wrapping_add(seed2)
            .wrapping_add(seed2 << 5)
            .wrapping_add(3);
    }
    proof { assert(all.skip(all.len() as int) =~= Seq::<u8>::empty()); }
    seed1
}
}
fn main() {}
