use vstd::prelude::*;
verus! {

pub open spec fn next_seed(s: int) -> int { (s * 125 + 3) % 0x2AAAAB }

pub open spec fn seed_at(n: nat) -> int
    decreases n
{ if n == 0 { 0x00100001 } else { next_seed(seed_at((n - 1) as nat)) } }

// entry (i1 + i2*0x100) is produced at step k = i1*5 + i2 ; uses seeds 2k+1, 2k+2
pub open spec fn table_spec(idx: int) -> u32 {
    let i1 = idx % 0x100;
    let i2 = idx / 0x100;
    let k = i1 * 5 + i2;
    let s1 = seed_at((2 * k + 1) as nat);
    let s2 = seed_at((2 * k + 2) as nat);
    ((((s1 % 0x10000) * 0x10000) + (s2 % 0x10000))) as u32
}

const fn generate_encryption_table() -> (table: [u32; 0x500])
    ensures forall|i: int| 0 <= i < 0x500 ==> table[i] == table_spec(i)
{
    let mut table = [0u32; 0x500];
    let mut seed: u32 = 0x00100001;

    let mut index1 = 0;
    while index1 < 0x100 
        invariant true
        decreases 0x100 - index1
    {
        let mut index2 = 0;
        while index2 < 5 
            invariant true
            decreases 5 - index2
        {
            let table_index = index1 + index2 * 0x100;

            // Update seed using the algorithm
            seed = seed.wrapping_mul(125).wrapping_add(3) % 0x2AAAAB;
            let temp1 = (seed & 0xFFFF) << 0x10;

            seed = seed.wrapping_mul(125).wrapping_add(3) % 0x2AAAAB;
            let temp2 = seed & 0xFFFF;

            table[table_index] = temp1 | temp2;
            index2 += 1;
        }
        index1 += 1;
    }

    table
}

exec const ENCRYPTION_TABLE: [u32; 0x500] 
    ensures forall|i: int| 0 <= i < 0x500 ==> ENCRYPTION_TABLE[i] == table_spec(i)
{ generate_encryption_table() }

} // verus!
fn main() {}
