use vstd::prelude::*;
verus! {

#[verifier::external_type_specification]
#[verifier::external_body]
pub struct ExError(Error);
type Result<T> = core::result::Result<T, Error>;

#[verifier::external_body]
fn err_compression(msg: &str) -> Error { Error { msg: String::new() } }

fn decompress(
    compressed: &[u8],
    decompressed_size: usize,
    skip_header: bool,
) -> (res: Result<Vec<u8>>)
    ensures res.is_ok() ==> res.unwrap()@.len() == decompressed_size,
            res.is_err() ==> skip_header && compressed@.len() < 4,
{
    let data = if skip_header {
        if compressed.len() < 4 {
            return Err(err_compression("RLE data too short for header"));
        }
        // Skip the initial DWORD (decompressed size)
        &compressed[4..]
    } else {
        // No header, use all data
        compressed
    };

    // Pre-fill with zeros
    let mut decompressed = vec![0u8; decompressed_size];

    let mut src_pos = 0;
    let mut dst_pos = 0;

    while src_pos < data.len() && dst_pos < decompressed_size
        invariant decompressed@.len() == decompressed_size, src_pos <= data@.len(),
        decreases data@.len() - src_pos
    {
        let one_byte = data[src_pos];
        src_pos += 1;
        proof { assert((one_byte & 0x7F) <= 0x7F) by (bit_vector); assert((one_byte & 0x80) == 0 ==> one_byte <= 0x7F) by (bit_vector); }

        if one_byte & 0x80 != 0 {
            // High bit set: copy literal bytes
            let repeat_count = ((one_byte & 0x7F) + 1) as usize;

            for _ in 0..repeat_count 
                invariant decompressed@.len() == decompressed_size, src_pos <= data@.len(),
            {
                if dst_pos >= decompressed_size || src_pos >= data.len() {
                    break;
                }

                decompressed[dst_pos] = data[src_pos];
                dst_pos += 1;
                src_pos += 1;
            }
        } else {
            // High bit clear: skip zeros (already filled)
            dst_pos += (one_byte + 1) as usize;
        }
    }

    Ok(decompressed)
}
}
#[derive(Debug)]
pub struct Error { msg: String }
fn main() {}
