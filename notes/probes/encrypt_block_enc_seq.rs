use vstd::prelude::*;
verus! {

pub uninterp spec fn tbl(i: int) -> u32;

// stands in for ENCRYPTION_TABLE[i] in this probe only
#[verifier::external_body]
fn table_at(i: usize) -> (r: u32)
    requires i < 0x500
    ensures r == tbl(i as int)
{ unimplemented!() }

pub open spec fn add32(a: u32, b: u32) -> u32 { a.wrapping_add(b) }

pub open spec fn step_key(k: u32) -> u32 {
    add32(!k << 21u32, 0x11111111u32) | (k >> 11u32)
}
pub open spec fn seed1(seed: u32, k: u32) -> u32 { add32(seed, tbl(0x400 + (k & 0xFF) as int)) }
pub open spec fn seed2(plain: u32, s1: u32) -> u32 {
    add32(add32(add32(plain, s1), s1 << 5u32), 3u32)
}

pub open spec fn enc_seq(p: Seq<u32>, k: u32, seed: u32) -> Seq<u32>
    decreases p.len()
{
    if p.len() == 0 { Seq::empty() } else {
        let s1 = seed1(seed, k);
        let c = p[0] ^ add32(k, s1);
        seq![c] + enc_seq(p.skip(1), step_key(k), seed2(p[0], s1))
    }
}
pub open spec fn dec_seq(c: Seq<u32>, k: u32, seed: u32) -> Seq<u32>
    decreases c.len()
{
    if c.len() == 0 { Seq::empty() } else {
        let s1 = seed1(seed, k);
        let p = c[0] ^ add32(k, s1);
        seq![p] + dec_seq(c.skip(1), step_key(k), seed2(p, s1))
    }
}

proof fn lemma_xor_cancel(a: u32, m: u32) ensures (a ^ m) ^ m == a { assert((a ^ m) ^ m == a) by (bit_vector); }

pub proof fn lemma_inverse(p: Seq<u32>, k: u32, seed: u32)
    ensures dec_seq(enc_seq(p, k, seed), k, seed) == p, enc_seq(p,k,seed).len() == p.len()
    decreases p.len()
{
    if p.len() == 0 {
        assert(enc_seq(p,k,seed) =~= Seq::empty());
        assert(dec_seq(enc_seq(p,k,seed),k,seed) =~= p);
    } else {
        let s1 = seed1(seed, k);
        let c0 = p[0] ^ add32(k, s1);
        let rest = enc_seq(p.skip(1), step_key(k), seed2(p[0], s1));
        let e = enc_seq(p, k, seed);
        lemma_inverse(p.skip(1), step_key(k), seed2(p[0], s1));
        assert(e =~= seq![c0] + rest);
        assert(e[0] == c0);
        assert(e.skip(1) =~= rest);
        lemma_xor_cancel(p[0], add32(k, s1));
        assert(dec_seq(e, k, seed) =~= seq![p[0]] + dec_seq(rest, step_key(k), seed2(p[0], s1)));
        assert(dec_seq(e, k, seed) =~= p);
    }
}

// prefix-state helpers for the loop invariants
pub open spec fn key_at(k: u32, n: nat) -> u32 decreases n { if n == 0 { k } else { step_key(key_at(k, (n-1) as nat)) } }


proof fn lemma_wrap_add(a: u32, b: u32) ensures a.wrapping_add(b) == add32(a, b) 
{
    // vstd spec of wrapping_add is in terms of ints
}

pub fn encrypt_block(data: &mut [u32], mut key: u32)
    ensures
        final(data)@.len() == old(data)@.len(),
        key != 0 ==> final(data)@ == enc_seq(old(data)@, key, 0xEEEEEEEEu32),
        key == 0 ==> final(data)@ == old(data)@,
{
    if key == 0 {
        return;
    }

    let mut seed: u32 = 0xEEEEEEEE;
    let ghost orig = data@;
    let ghost n = data@.len();
    let ghost key0 = key;
    let ghost mut produced: Seq<u32> = Seq::empty();

    proof {
        assert(orig.skip(0) =~= orig);
        assert(produced + enc_seq(orig.skip(0), key, seed) =~= enc_seq(orig, key0, 0xEEEEEEEEu32));
    }
    for value in it: data.iter_mut()
        invariant
            it.seq().len() == n,
            orig.len() == n,
            forall|i: int| 0 <= i < n ==> *(#[trigger] it.seq()[i]) == orig[i],
            // already-produced prefix followed by the spec of the rest equals the spec of the whole
            produced.len() == it.index@,
            0 <= it.index@ <= n,
            forall|i: int| 0 <= i < it.index@ ==> *final(#[trigger] it.seq()[i]) == produced[i],
            enc_seq(orig, key0, 0xEEEEEEEEu32) == produced + enc_seq(orig.skip(it.index@), key, seed),
    {
        proof {
            assert((key & 0xFF) <= 0xFF) by (bit_vector);
            assert(orig.skip(it.index@).len() > 0);
            assert(orig.skip(it.index@)[0] == orig[it.index@]);
            assert(orig.skip(it.index@).skip(1) =~= orig.skip(it.index@ + 1));
        }
        let ghost idx = it.index@;
        // Update seed using the encryption table and key
        seed = seed.wrapping_add(table_at(0x400 + (key & 0xFF) as usize));

        // Store original value
        let ch = *value;

        // Encrypt the current DWORD
        *value = ch ^ (key.wrapping_add(seed));

        // Update key for next round
        key = (!key << 0x15).wrapping_add(0x11111111) | (key >> 0x0B);

        // Update seed for next round
        seed = ch
            .wrapping_add(seed)
            .wrapping_add(seed << 5)
            .wrapping_add(3);
        proof {
            let old_produced = produced;
            produced = produced.push(*value);
            assert(old_produced + (seq![*value] + enc_seq(orig.skip(idx + 1), key, seed)) =~= produced + enc_seq(orig.skip(idx + 1), key, seed));
        }
    }
    proof {
        assert(orig.skip(n as int) =~= Seq::<u32>::empty());
        assert(enc_seq(orig.skip(n as int), key, seed) =~= Seq::<u32>::empty());
        assert(produced + Seq::<u32>::empty() =~= produced);
        assert(final(data)@ =~= produced);
    }
}

} // verus!
fn main() {}
