use vstd::prelude::*;
verus! {

#[verifier::external_type_specification]
#[verifier::external_body]
pub struct ExError(Error);

pub type Result<T> = core::result::Result<T, Error>;

pub assume_specification<T: Clone> [<[T]>::to_vec] (s: &[T]) -> (v: Vec<T>)
    ensures v@.len() == s@.len(), forall|i: int| 0 <= i < s@.len() ==> call_ensures(T::clone, (&s@[i],), #[trigger] v@[i]) ;

pub uninterp spec fn internal_out(data: Seq<u8>, method: u8) -> Seq<u8>;

#[verifier::external_body]
fn compress_internal(data: &[u8], method: u8) -> (r: Result<Vec<u8>>)
    ensures r.is_ok() ==> r.unwrap()@ == internal_out(data@, method), r.is_ok() ==> r.unwrap()@.len() <= isize::MAX
{ unimplemented!() }

pub fn compress(data: &[u8], method: u8) -> (res: Result<Vec<u8>>)
    ensures
        res.is_ok() ==> res.unwrap()@.len() <= data@.len(),
        res.is_ok() ==> (res.unwrap()@ == data@
            || (res.unwrap()@.len() < data@.len() && res.unwrap()@[0] == method
                && res.unwrap()@.skip(1) == internal_out(data@, method))),
{
    // Check if compression actually reduces size
    let compressed = compress_internal(data, method)?;

    // MPQ format requires that compression saves space
    // Account for the method byte prefix when comparing sizes
    if 1 + compressed.len() >= data.len() {
        // Return uncompressed data (no compression byte prefix)
        Ok(data.to_vec())
    } else {
        // Return compressed data with method byte prefix
        let mut result = Vec::with_capacity(1 + compressed.len());
        result.push(method);
        result.extend_from_slice(&compressed);
        Ok(result)
    }
}

} // verus!
#[derive(Debug)]
pub struct Error { msg: String }
fn main() {}
