//! Round-trip exploration for WmoWriter / WmoParser / WmoGroupParser / parse_wmo / WmoConverter.
//!
//! Every probe builds a model value, writes it for each version, parses it back and
//! compares field by field.  Mismatches are collected (not asserted one by one) and
//! printed as `MISMATCH <probe> [<versions>] <message>`; each #[test] fails if its
//! probe produced at least one mismatch.

use std::collections::{BTreeMap, HashMap};
use std::io::Cursor;
use std::panic::{AssertUnwindSafe, catch_unwind};

use wow_wmo::{
    BoundingBox, Color, ParsedWmo, TexCoord, Vec3, WmoBatch, WmoBspNode, WmoConverter,
    WmoConvexVolumePlane, WmoConvexVolumePlanes, WmoDoodadDef, WmoDoodadSet, WmoFlags, WmoGroup,
    WmoGroupFlags, WmoGroupHeader, WmoGroupInfo, WmoGroupParser, WmoHeader, WmoLight,
    WmoLightProperties, WmoLightType, WmoLiquid, WmoLiquidVertex, WmoMaterial, WmoMaterialFlags,
    WmoParser, WmoPlane, WmoPortal, WmoPortalReference, WmoRoot, WmoVersion, WmoWriter, parse_wmo,
};

const VERSIONS: [WmoVersion; 11] = [
    WmoVersion::Classic,
    WmoVersion::Tbc,
    WmoVersion::Wotlk,
    WmoVersion::Cataclysm,
    WmoVersion::Mop,
    WmoVersion::Wod,
    WmoVersion::Legion,
    WmoVersion::Bfa,
    WmoVersion::Shadowlands,
    WmoVersion::Dragonflight,
    WmoVersion::WarWithin,
];

// ---------------------------------------------------------------------------
// report helpers
// ---------------------------------------------------------------------------

/// message -> versions on which it occurred
type Report = BTreeMap<String, Vec<String>>;

fn note(rep: &mut Report, v: WmoVersion, msg: String) {
    rep.entry(msg).or_default().push(format!("{v:?}"));
}

fn finish(probe: &str, rep: Report) -> usize {
    for (msg, vs) in &rep {
        let vs = if vs.len() == VERSIONS.len() {
            "ALL".to_string()
        } else {
            vs.join(",")
        };
        println!("MISMATCH {probe} [{vs}] {msg}");
    }
    if rep.is_empty() {
        println!("OK       {probe}");
    }
    rep.len()
}

macro_rules! cmp {
    ($out:expr, $name:expr, $e:expr, $g:expr) => {{
        let (mut se, mut sg) = (format!("{:?}", $e), format!("{:?}", $g));
        if se != sg {
            // keep report lines readable for very long lists
            if se.len() > 300 {
                se = format!("{}...({} chars)", &se[..120], se.len());
            }
            if sg.len() > 300 {
                sg = format!("{}...({} chars)", &sg[..120], sg.len());
            }
            $out.push(format!("{}: expected {} got {}", $name, se, sg));
        }
    }};
}

// ---------------------------------------------------------------------------
// builders
// ---------------------------------------------------------------------------

fn v3(x: f32, y: f32, z: f32) -> Vec3 {
    Vec3 { x, y, z }
}
fn bb(a: f32, b: f32) -> BoundingBox {
    BoundingBox {
        min: v3(a, a - 1.0, a - 2.0),
        max: v3(b, b + 1.0, b + 2.0),
    }
}
fn col(r: u8, g: u8, b: u8, a: u8) -> Color {
    Color { r, g, b, a }
}

fn base_root(v: WmoVersion) -> WmoRoot {
    WmoRoot {
        version: v,
        materials: vec![],
        groups: vec![],
        portals: vec![],
        portal_references: vec![],
        visible_block_lists: vec![],
        lights: vec![],
        doodad_defs: vec![],
        doodad_sets: vec![],
        bounding_box: BoundingBox {
            min: v3(0.0, 0.0, 0.0),
            max: v3(0.0, 0.0, 0.0),
        },
        textures: vec![],
        texture_offset_index_map: HashMap::new(),
        header: WmoHeader {
            n_materials: 0,
            n_groups: 0,
            n_portals: 0,
            n_lights: 0,
            n_doodad_names: 0,
            n_doodad_defs: 0,
            n_doodad_sets: 0,
            flags: WmoFlags::empty(),
            ambient_color: col(0, 0, 0, 0),
        },
        skybox: None,
        convex_volume_planes: None,
    }
}

/// Make header counts, texture map and global bounding box consistent with the lists,
/// so that those derived fields do not create noise in unrelated probes.
fn normalise(r: &mut WmoRoot) {
    r.header.n_materials = r.materials.len() as u32;
    r.header.n_groups = r.groups.len() as u32;
    r.header.n_portals = r.portals.len() as u32;
    r.header.n_lights = r.lights.len() as u32;
    r.header.n_doodad_names = r.doodad_defs.len() as u32;
    r.header.n_doodad_defs = r.doodad_defs.len() as u32;
    r.header.n_doodad_sets = r.doodad_sets.len() as u32;
    let mut off = 0u32;
    r.texture_offset_index_map.clear();
    for (i, t) in r.textures.iter().enumerate() {
        r.texture_offset_index_map.insert(off, i as u32);
        off += t.len() as u32 + 1;
    }
    if !r.groups.is_empty() {
        let mut mn = v3(f32::MAX, f32::MAX, f32::MAX);
        let mut mx = v3(f32::MIN, f32::MIN, f32::MIN);
        for g in &r.groups {
            mn.x = mn.x.min(g.bounding_box.min.x);
            mn.y = mn.y.min(g.bounding_box.min.y);
            mn.z = mn.z.min(g.bounding_box.min.z);
            mx.x = mx.x.max(g.bounding_box.max.x);
            mx.y = mx.y.max(g.bounding_box.max.y);
            mx.z = mx.z.max(g.bounding_box.max.z);
        }
        r.bounding_box = BoundingBox { min: mn, max: mx };
    }
}

fn material(i: u32, tex1: u32, tex2: u32) -> WmoMaterial {
    WmoMaterial {
        flags: WmoMaterialFlags::from_bits_truncate(1 << (i % 7)),
        shader: i + 1,
        blend_mode: i + 2,
        texture1: tex1,
        emissive_color: col(1 + i as u8, 2, 3, 4),
        sidn_color: col(5, 6 + i as u8, 7, 8),
        framebuffer_blend: Color::default(),
        texture2: tex2,
        diffuse_color: col(9, 10, 11 + i as u8, 12),
        ground_type: 7 + i,
    }
}

fn group_info(i: u32, name: &str) -> WmoGroupInfo {
    WmoGroupInfo {
        flags: WmoGroupFlags::from_bits_truncate(1 << (i % 12)),
        bounding_box: bb(-(i as f32) - 1.0, i as f32 + 1.5),
        name: name.to_string(),
    }
}

fn portal(n: usize, seed: f32) -> WmoPortal {
    WmoPortal {
        vertices: (0..n)
            .map(|k| v3(seed + k as f32, seed * 2.0 + k as f32, 1.0))
            .collect(),
        normal: v3(0.0, 0.0, 1.0),
    }
}

fn light(t: WmoLightType, i: u32) -> WmoLight {
    let properties = match t {
        WmoLightType::Omni => WmoLightProperties::Omni,
        WmoLightType::Ambient => WmoLightProperties::Ambient,
        WmoLightType::Spot => WmoLightProperties::Spot {
            direction: v3(0.0, 0.0, -1.0),
            hotspot: 0.0,
            falloff: 0.0,
        },
        WmoLightType::Directional => WmoLightProperties::Directional {
            direction: v3(0.0, 0.0, -1.0),
        },
    };
    WmoLight {
        light_type: t,
        position: v3(i as f32, 2.0, 3.0),
        color: col(10, 20, 30, 40 + i as u8),
        intensity: 0.5 + i as f32,
        rotation: [0.1, 0.2, 0.3, 0.9],
        attenuation_start: 1.5,
        attenuation_end: 9.5 + i as f32,
        use_attenuation: i % 2 == 0,
        properties,
    }
}

fn doodad_def(name_offset: u32, i: u32) -> WmoDoodadDef {
    WmoDoodadDef {
        name_offset,
        position: v3(i as f32, -1.0, 2.5),
        orientation: [0.0, 0.5, 0.5, 0.7],
        scale: 1.0 + i as f32,
        color: col(1, 2, 3, 4 + i as u8),
        set_index: 0,
    }
}

fn doodad_set(name: &str, start: u32, n: u32) -> WmoDoodadSet {
    WmoDoodadSet {
        name: name.to_string(),
        start_doodad: start,
        n_doodads: n,
    }
}

/// Everything non-empty, several elements per list.
fn full_root(v: WmoVersion) -> WmoRoot {
    let mut r = base_root(v);
    r.textures = vec![
        "dir\\tex.blp".into(),
        "dir\\tex_2.blp".into(),
        "dir\\tex.blp2".into(),
    ];
    // offsets 0, 12, 26
    r.materials = vec![material(0, 0, 12), material(1, 12, 26), material(2, 26, 0)];
    r.groups = vec![
        group_info(0, "alpha"),
        group_info(1, "beta_longer"),
        group_info(2, "gamma"),
    ];
    r.portals = vec![portal(4, 1.0), portal(3, 5.0)];
    r.portal_references = vec![
        WmoPortalReference {
            portal_index: 0,
            group_index: 1,
            side: 1,
        },
        WmoPortalReference {
            portal_index: 1,
            group_index: 2,
            side: 0,
        },
    ];
    r.visible_block_lists = vec![vec![1, 2], vec![], vec![3]];
    r.lights = vec![
        light(WmoLightType::Omni, 0),
        light(WmoLightType::Spot, 1),
        light(WmoLightType::Directional, 2),
        light(WmoLightType::Ambient, 3),
    ];
    r.doodad_defs = vec![doodad_def(0, 0), doodad_def(9, 1)];
    r.doodad_sets = vec![
        doodad_set("Set_$DefaultGlobal", 0, 1),
        doodad_set("Second", 1, 1),
    ];
    r.header.ambient_color = col(11, 22, 33, 44);
    r.header.flags = WmoFlags::OUTDOOR | WmoFlags::HAS_LIQUIDS;
    normalise(&mut r);
    r
}

// ---------------------------------------------------------------------------
// write / parse helpers
// ---------------------------------------------------------------------------

fn write_root(r: &WmoRoot, v: WmoVersion) -> Result<Vec<u8>, String> {
    let mut c = Cursor::new(Vec::new());
    match catch_unwind(AssertUnwindSafe(|| {
        WmoWriter::new().write_root(&mut c, r, v)
    })) {
        Ok(Ok(())) => Ok(c.into_inner()),
        Ok(Err(e)) => Err(format!("write_root error: {e}")),
        Err(_) => Err("write_root PANIC".into()),
    }
}

fn parse_root(bytes: &[u8]) -> Result<WmoRoot, String> {
    let mut c = Cursor::new(bytes.to_vec());
    match catch_unwind(AssertUnwindSafe(|| WmoParser::new().parse_root(&mut c))) {
        Ok(Ok(r)) => Ok(r),
        Ok(Err(e)) => Err(format!("parse_root error: {e}")),
        Err(_) => Err("parse_root PANIC".into()),
    }
}

fn api_parse(bytes: &[u8]) -> Result<ParsedWmo, String> {
    let mut c = Cursor::new(bytes.to_vec());
    match catch_unwind(AssertUnwindSafe(|| parse_wmo(&mut c))) {
        Ok(Ok(r)) => Ok(r),
        Ok(Err(e)) => Err(format!("parse_wmo error: {e}")),
        Err(_) => Err("parse_wmo PANIC".into()),
    }
}

/// Walk `bytes[start..end]` as a chunk list.  Returns (ids, error).
fn walk_chunks(
    bytes: &[u8],
    start: usize,
    end: usize,
) -> (Vec<(String, usize, usize)>, Option<String>) {
    let mut out = vec![];
    let mut p = start;
    while p < end {
        if p + 8 > end {
            return (out, Some(format!("{} trailing bytes at {}", end - p, p)));
        }
        let mut id = [bytes[p], bytes[p + 1], bytes[p + 2], bytes[p + 3]];
        id.reverse();
        let ids = String::from_utf8_lossy(&id).to_string();
        let size =
            u32::from_le_bytes([bytes[p + 4], bytes[p + 5], bytes[p + 6], bytes[p + 7]]) as usize;
        if !id
            .iter()
            .all(|b| b.is_ascii_uppercase() || b.is_ascii_digit())
        {
            return (out, Some(format!("garbage chunk id {:?} at {}", id, p)));
        }
        if p + 8 + size > end {
            return (
                out,
                Some(format!("chunk {ids} at {p} size {size} overruns end {end}")),
            );
        }
        out.push((ids, p + 8, size));
        p += 8 + size;
    }
    (out, None)
}

fn u32_at(b: &[u8], o: usize) -> u32 {
    u32::from_le_bytes([b[o], b[o + 1], b[o + 2], b[o + 3]])
}

// ---------------------------------------------------------------------------
// root comparison
// ---------------------------------------------------------------------------

fn diff_root(e: &WmoRoot, g: &WmoRoot) -> Vec<String> {
    let mut o = vec![];
    cmp!(
        o,
        "version.to_raw()",
        e.version.to_raw(),
        g.version.to_raw()
    );

    cmp!(o, "materials.len", e.materials.len(), g.materials.len());
    for (i, (a, b)) in e.materials.iter().zip(&g.materials).enumerate() {
        cmp!(o, format!("materials[{i}].flags"), a.flags, b.flags);
        cmp!(o, format!("materials[{i}].shader"), a.shader, b.shader);
        cmp!(
            o,
            format!("materials[{i}].blend_mode"),
            a.blend_mode,
            b.blend_mode
        );
        cmp!(
            o,
            format!("materials[{i}].texture1"),
            a.texture1,
            b.texture1
        );
        cmp!(
            o,
            format!("materials[{i}].emissive_color"),
            a.emissive_color,
            b.emissive_color
        );
        cmp!(
            o,
            format!("materials[{i}].sidn_color"),
            a.sidn_color,
            b.sidn_color
        );
        cmp!(
            o,
            format!("materials[{i}].framebuffer_blend"),
            a.framebuffer_blend,
            b.framebuffer_blend
        );
        cmp!(
            o,
            format!("materials[{i}].texture2"),
            a.texture2,
            b.texture2
        );
        cmp!(
            o,
            format!("materials[{i}].diffuse_color"),
            a.diffuse_color,
            b.diffuse_color
        );
        cmp!(
            o,
            format!("materials[{i}].ground_type"),
            a.ground_type,
            b.ground_type
        );
    }

    cmp!(o, "groups.len", e.groups.len(), g.groups.len());
    for (i, (a, b)) in e.groups.iter().zip(&g.groups).enumerate() {
        cmp!(o, format!("groups[{i}].flags"), a.flags, b.flags);
        cmp!(
            o,
            format!("groups[{i}].bounding_box"),
            a.bounding_box,
            b.bounding_box
        );
        cmp!(o, format!("groups[{i}].name"), a.name, b.name);
    }

    cmp!(o, "portals.len", e.portals.len(), g.portals.len());
    for (i, (a, b)) in e.portals.iter().zip(&g.portals).enumerate() {
        cmp!(o, format!("portals[{i}].vertices"), a.vertices, b.vertices);
        cmp!(o, format!("portals[{i}].normal"), a.normal, b.normal);
    }

    cmp!(
        o,
        "portal_references.len",
        e.portal_references.len(),
        g.portal_references.len()
    );
    for (i, (a, b)) in e
        .portal_references
        .iter()
        .zip(&g.portal_references)
        .enumerate()
    {
        cmp!(o, format!("portal_references[{i}]"), a, b);
    }

    cmp!(
        o,
        "visible_block_lists",
        e.visible_block_lists,
        g.visible_block_lists
    );

    cmp!(o, "lights.len", e.lights.len(), g.lights.len());
    for (i, (a, b)) in e.lights.iter().zip(&g.lights).enumerate() {
        cmp!(
            o,
            format!("lights[{i}].light_type"),
            a.light_type,
            b.light_type
        );
        cmp!(o, format!("lights[{i}].position"), a.position, b.position);
        cmp!(o, format!("lights[{i}].color"), a.color, b.color);
        cmp!(
            o,
            format!("lights[{i}].intensity"),
            a.intensity,
            b.intensity
        );
        cmp!(o, format!("lights[{i}].rotation"), a.rotation, b.rotation);
        cmp!(
            o,
            format!("lights[{i}].attenuation_start"),
            a.attenuation_start,
            b.attenuation_start
        );
        cmp!(
            o,
            format!("lights[{i}].attenuation_end"),
            a.attenuation_end,
            b.attenuation_end
        );
        cmp!(
            o,
            format!("lights[{i}].use_attenuation"),
            a.use_attenuation,
            b.use_attenuation
        );
        cmp!(
            o,
            format!("lights[{i}].properties"),
            a.properties,
            b.properties
        );
    }

    cmp!(
        o,
        "doodad_defs.len",
        e.doodad_defs.len(),
        g.doodad_defs.len()
    );
    for (i, (a, b)) in e.doodad_defs.iter().zip(&g.doodad_defs).enumerate() {
        cmp!(
            o,
            format!("doodad_defs[{i}].name_offset"),
            a.name_offset,
            b.name_offset
        );
        cmp!(
            o,
            format!("doodad_defs[{i}].position"),
            a.position,
            b.position
        );
        cmp!(
            o,
            format!("doodad_defs[{i}].orientation"),
            a.orientation,
            b.orientation
        );
        cmp!(o, format!("doodad_defs[{i}].scale"), a.scale, b.scale);
        cmp!(o, format!("doodad_defs[{i}].color"), a.color, b.color);
        cmp!(
            o,
            format!("doodad_defs[{i}].set_index"),
            a.set_index,
            b.set_index
        );
    }

    cmp!(
        o,
        "doodad_sets.len",
        e.doodad_sets.len(),
        g.doodad_sets.len()
    );
    for (i, (a, b)) in e.doodad_sets.iter().zip(&g.doodad_sets).enumerate() {
        cmp!(o, format!("doodad_sets[{i}].name"), a.name, b.name);
        cmp!(
            o,
            format!("doodad_sets[{i}].start_doodad"),
            a.start_doodad,
            b.start_doodad
        );
        cmp!(
            o,
            format!("doodad_sets[{i}].n_doodads"),
            a.n_doodads,
            b.n_doodads
        );
    }

    cmp!(o, "bounding_box", e.bounding_box, g.bounding_box);
    cmp!(o, "textures", e.textures, g.textures);
    let sm = |m: &HashMap<u32, u32>| {
        let mut v: Vec<(u32, u32)> = m.iter().map(|(a, b)| (*a, *b)).collect();
        v.sort();
        v
    };
    cmp!(
        o,
        "texture_offset_index_map",
        sm(&e.texture_offset_index_map),
        sm(&g.texture_offset_index_map)
    );

    cmp!(
        o,
        "header.n_materials",
        e.header.n_materials,
        g.header.n_materials
    );
    cmp!(o, "header.n_groups", e.header.n_groups, g.header.n_groups);
    cmp!(
        o,
        "header.n_portals",
        e.header.n_portals,
        g.header.n_portals
    );
    cmp!(o, "header.n_lights", e.header.n_lights, g.header.n_lights);
    cmp!(
        o,
        "header.n_doodad_names",
        e.header.n_doodad_names,
        g.header.n_doodad_names
    );
    cmp!(
        o,
        "header.n_doodad_defs",
        e.header.n_doodad_defs,
        g.header.n_doodad_defs
    );
    cmp!(
        o,
        "header.n_doodad_sets",
        e.header.n_doodad_sets,
        g.header.n_doodad_sets
    );
    cmp!(o, "header.flags", e.header.flags, g.header.flags);
    cmp!(
        o,
        "header.ambient_color",
        e.header.ambient_color,
        g.header.ambient_color
    );

    cmp!(o, "skybox", e.skybox, g.skybox);
    cmp!(
        o,
        "convex_volume_planes",
        e.convex_volume_planes.as_ref().map(|p| &p.planes),
        g.convex_volume_planes.as_ref().map(|p| &p.planes)
    );
    o
}

/// Compare the output of the binrw parser behind `parse_wmo` with the model that was written.
fn diff_api_root(e: &WmoRoot, g: &wow_wmo::root_parser::WmoRoot) -> Vec<String> {
    let mut o = vec![];
    cmp!(o, "api.version", e.version.to_raw(), g.version);
    cmp!(
        o,
        "api.n_materials",
        e.materials.len() as u32,
        g.n_materials
    );
    cmp!(o, "api.n_groups", e.groups.len() as u32, g.n_groups);
    cmp!(o, "api.n_portals", e.portals.len() as u32, g.n_portals);
    cmp!(o, "api.n_lights", e.lights.len() as u32, g.n_lights);
    cmp!(
        o,
        "api.n_doodad_defs",
        e.doodad_defs.len() as u32,
        g.n_doodad_defs
    );
    cmp!(
        o,
        "api.n_doodad_sets",
        e.doodad_sets.len() as u32,
        g.n_doodad_sets
    );
    let c = e.header.ambient_color;
    cmp!(
        o,
        "api.ambient_color(bgra)",
        [c.b, c.g, c.r, c.a],
        g.ambient_color
    );
    cmp!(o, "api.flags", e.header.flags.bits() as u16, g.flags);
    cmp!(o, "api.wmo_id", 0u32, g.wmo_id);
    let bx = e.bounding_box;
    cmp!(
        o,
        "api.bounding_box_min",
        [bx.min.x, bx.min.y, bx.min.z],
        g.bounding_box_min
    );
    cmp!(
        o,
        "api.bounding_box_max",
        [bx.max.x, bx.max.y, bx.max.z],
        g.bounding_box_max
    );
    cmp!(o, "api.textures", e.textures, g.textures);
    cmp!(o, "api.materials.len", e.materials.len(), g.materials.len());
    for (i, (a, b)) in e.materials.iter().zip(&g.materials).enumerate() {
        cmp!(
            o,
            format!("api.materials[{i}].flags"),
            a.flags.bits(),
            b.flags
        );
        cmp!(
            o,
            format!("api.materials[{i}].texture_1"),
            a.texture1,
            b.texture_1
        );
        cmp!(
            o,
            format!("api.materials[{i}].texture_2"),
            a.texture2,
            b.texture_2
        );
        cmp!(
            o,
            format!("api.materials[{i}].ground_type"),
            a.ground_type,
            b.ground_type
        );
    }
    let names: Vec<String> = e.groups.iter().map(|g| g.name.clone()).collect();
    cmp!(o, "api.group_names", names, g.group_names);
    cmp!(o, "api.group_info.len", e.groups.len(), g.group_info.len());
    for (i, (a, b)) in e.groups.iter().zip(&g.group_info).enumerate() {
        cmp!(
            o,
            format!("api.group_info[{i}].flags"),
            a.flags.bits(),
            b.flags
        );
        let m = a.bounding_box.min;
        cmp!(
            o,
            format!("api.group_info[{i}].bbmin"),
            [m.x, m.y, m.z],
            b.bounding_box_min
        );
        // expected: the MOGN byte offset of this group's name
        let off: usize = e.groups[..i].iter().map(|g| g.name.len() + 1).sum();
        cmp!(
            o,
            format!("api.group_info[{i}].name_offset"),
            off as i32,
            b.name_offset
        );
    }
    cmp!(o, "api.skybox", e.skybox, g.skybox);
    let pv: Vec<[f32; 3]> = e
        .portals
        .iter()
        .flat_map(|p| p.vertices.iter().map(|v| [v.x, v.y, v.z]))
        .collect();
    let gv: Vec<[f32; 3]> = g.portal_vertices.iter().map(|v| [v.x, v.y, v.z]).collect();
    cmp!(o, "api.portal_vertices", pv, gv);
    cmp!(o, "api.portals.len", e.portals.len(), g.portals.len());
    cmp!(
        o,
        "api.portal_refs.len",
        e.portal_references.len(),
        g.portal_refs.len()
    );
    for (i, (a, b)) in e.portal_references.iter().zip(&g.portal_refs).enumerate() {
        cmp!(
            o,
            format!("api.portal_refs[{i}]"),
            (a.portal_index, a.group_index, a.side as i16),
            (b.portal_index, b.group_index, b.side)
        );
    }
    cmp!(o, "api.lights.len", e.lights.len(), g.lights.len());
    for (i, (a, b)) in e.lights.iter().zip(&g.lights).enumerate() {
        cmp!(
            o,
            format!("api.lights[{i}].type"),
            a.light_type as u8,
            b.light_type
        );
        cmp!(
            o,
            format!("api.lights[{i}].intensity"),
            a.intensity,
            b.intensity
        );
        cmp!(
            o,
            format!("api.lights[{i}].atten_end"),
            a.attenuation_end,
            b.attenuation_end
        );
    }
    cmp!(
        o,
        "api.doodad_defs.len",
        e.doodad_defs.len(),
        g.doodad_defs.len()
    );
    for (i, (a, b)) in e.doodad_defs.iter().zip(&g.doodad_defs).enumerate() {
        cmp!(
            o,
            format!("api.doodad_defs[{i}].name_index"),
            a.name_offset,
            b.name_index()
        );
        cmp!(o, format!("api.doodad_defs[{i}].scale"), a.scale, b.scale);
    }
    cmp!(
        o,
        "api.doodad_sets.len",
        e.doodad_sets.len(),
        g.doodad_sets.len()
    );
    o
}

/// The generic root probe: for every version write, walk chunks, check MOHD counts,
/// parse, compare, re-write and compare bytes; optionally cross-check with parse_wmo.
fn run_root_probe(probe: &str, build: impl Fn(WmoVersion) -> WmoRoot, with_api: bool) -> usize {
    let mut rep = Report::new();
    for v in VERSIONS {
        let model = build(v);
        let bytes = match write_root(&model, v) {
            Ok(b) => b,
            Err(e) => {
                note(&mut rep, v, e);
                continue;
            }
        };
        // (1) chunk structure must be walkable to exactly EOF
        let (chunks, err) = walk_chunks(&bytes, 0, bytes.len());
        if let Some(e) = err {
            note(&mut rep, v, format!("chunk walk: {e}"));
        }
        // (2) MOHD counts equal list lengths
        if chunks.len() >= 2 && chunks[1].0 == "MOHD" {
            let d = chunks[1].1;
            let want = [
                ("n_materials", model.materials.len()),
                ("n_groups", model.groups.len()),
                ("n_portals", model.portals.len()),
                ("n_lights", model.lights.len()),
                ("n_doodad_names", model.doodad_defs.len()),
                ("n_doodad_defs", model.doodad_defs.len()),
                ("n_doodad_sets", model.doodad_sets.len()),
            ];
            for (k, (n, w)) in want.iter().enumerate() {
                let got = u32_at(&bytes, d + 4 * k);
                if got as usize != *w {
                    note(&mut rep, v, format!("MOHD.{n} = {got}, list length {w}"));
                }
            }
        } else {
            note(&mut rep, v, "MOHD is not the second chunk".into());
        }
        // (3) parse + compare
        match parse_root(&bytes) {
            Err(e) => note(&mut rep, v, e),
            Ok(parsed) => {
                for m in diff_root(&model, &parsed) {
                    note(&mut rep, v, m);
                }
                // (4) second write byte-identical
                match write_root(&parsed, v) {
                    Err(e) => note(&mut rep, v, format!("rewrite: {e}")),
                    Ok(b2) => {
                        if b2 != bytes {
                            let pos = bytes.iter().zip(&b2).position(|(a, b)| a != b);
                            note(
                                &mut rep,
                                v,
                                format!(
                                    "write(parse(write(x))) != write(x): len {} vs {}, first diff at {:?}",
                                    bytes.len(),
                                    b2.len(),
                                    pos
                                ),
                            );
                        }
                    }
                }
            }
        }
        // (5) parse_wmo cross-check
        if with_api {
            match api_parse(&bytes) {
                Err(e) => note(&mut rep, v, e),
                Ok(ParsedWmo::Group(_)) => {
                    note(&mut rep, v, "parse_wmo classified root as Group".into())
                }
                Ok(ParsedWmo::Root(r)) => {
                    for m in diff_api_root(&model, &r) {
                        note(&mut rep, v, m);
                    }
                }
            }
        }
    }
    finish(probe, rep)
}

// ---------------------------------------------------------------------------
// ROOT probes (WmoWriter::write_root <-> WmoParser::parse_root)
// ---------------------------------------------------------------------------

#[test]
fn r00_empty_root() {
    assert_eq!(run_root_probe("r00_empty_root", base_root, false), 0);
}

#[test]
fn r01_version_identity() {
    // the enum itself (not just the raw number)
    let mut rep = Report::new();
    for v in VERSIONS {
        let bytes = write_root(&base_root(v), v).unwrap();
        let p = parse_root(&bytes).unwrap();
        if p.version != v {
            note(
                &mut rep,
                v,
                format!("version: expected {:?} got {:?}", v, p.version),
            );
        }
    }
    assert_eq!(finish("r01_version_identity", rep), 0);
}

#[test]
fn r02_textures_one() {
    let n = run_root_probe(
        "r02_textures_one",
        |v| {
            let mut r = base_root(v);
            r.textures = vec!["a.blp".into()];
            normalise(&mut r);
            r
        },
        false,
    );
    assert_eq!(n, 0);
}

#[test]
fn r03_textures_shared_prefix() {
    let n = run_root_probe(
        "r03_textures_shared_prefix",
        |v| {
            let mut r = base_root(v);
            r.textures = vec![
                "dir\\tex.blp".into(),
                "dir\\tex_2.blp".into(),
                "dir\\tex.blp2".into(),
                "dir\\tex.blp".into(),
            ];
            normalise(&mut r);
            r
        },
        false,
    );
    assert_eq!(n, 0);
}

#[test]
fn r04_textures_empty_string_and_non_ascii() {
    let n = run_root_probe(
        "r04a_textures_empty_string",
        |v| {
            let mut r = base_root(v);
            r.textures = vec!["a".into(), "".into(), "b".into()];
            normalise(&mut r);
            r
        },
        false,
    );
    let m = run_root_probe(
        "r04b_textures_non_ascii",
        |v| {
            let mut r = base_root(v);
            r.textures = vec!["t\u{e9}x.blp".into()];
            normalise(&mut r);
            r
        },
        false,
    );
    assert_eq!(n + m, 0);
}

#[test]
fn r05_materials_one_alone() {
    let n = run_root_probe(
        "r05_materials_one_alone",
        |v| {
            let mut r = base_root(v);
            r.materials = vec![material(0, 0, 0)];
            normalise(&mut r);
            r
        },
        false,
    );
    assert_eq!(n, 0);
}

#[test]
fn r06_materials_then_another_chunk() {
    // one material followed by one doodad set (any later chunk would do)
    let n = run_root_probe(
        "r06_materials_then_another_chunk",
        |v| {
            let mut r = base_root(v);
            r.materials = vec![material(0, 0, 0)];
            r.doodad_sets = vec![doodad_set("S", 0, 0)];
            normalise(&mut r);
            r
        },
        false,
    );
    assert_eq!(n, 0);
}

#[test]
fn r07_materials_framebuffer_blend() {
    let n = run_root_probe(
        "r07_materials_framebuffer_blend",
        |v| {
            let mut r = base_root(v);
            let mut m = material(0, 0, 0);
            m.framebuffer_blend = col(1, 2, 3, 4);
            r.materials = vec![m];
            normalise(&mut r);
            r
        },
        false,
    );
    assert_eq!(n, 0);
}

#[test]
fn r08_groups_one() {
    let n = run_root_probe(
        "r08_groups_one",
        |v| {
            let mut r = base_root(v);
            r.groups = vec![group_info(0, "only")];
            normalise(&mut r);
            r
        },
        false,
    );
    assert_eq!(n, 0);
}

#[test]
fn r09_groups_two_names_differ() {
    let n = run_root_probe(
        "r09_groups_two_names_differ",
        |v| {
            let mut r = base_root(v);
            r.groups = vec![group_info(0, "a"), group_info(1, "b")];
            normalise(&mut r);
            r
        },
        false,
    );
    assert_eq!(n, 0);
}

#[test]
fn r10_groups_empty_name() {
    let n = run_root_probe(
        "r10_groups_empty_name",
        |v| {
            let mut r = base_root(v);
            r.groups = vec![group_info(0, "")];
            normalise(&mut r);
            r
        },
        false,
    );
    assert_eq!(n, 0);
}

#[test]
fn r11_portals() {
    let a = run_root_probe(
        "r11a_portals_one",
        |v| {
            let mut r = base_root(v);
            r.portals = vec![portal(4, 1.0)];
            normalise(&mut r);
            r
        },
        false,
    );
    let b = run_root_probe(
        "r11b_portals_several_incl_zero_vertices",
        |v| {
            let mut r = base_root(v);
            r.portals = vec![portal(4, 1.0), portal(0, 2.0), portal(3, 3.0)];
            normalise(&mut r);
            r
        },
        false,
    );
    let c = run_root_probe(
        "r11c_portals_only_zero_vertex_portal",
        |v| {
            let mut r = base_root(v);
            r.portals = vec![portal(0, 2.0)];
            normalise(&mut r);
            r
        },
        false,
    );
    assert_eq!(a + b + c, 0);
}

#[test]
fn r12_portal_references() {
    let n = run_root_probe(
        "r12_portal_references",
        |v| {
            let mut r = base_root(v);
            r.portal_references = vec![
                WmoPortalReference {
                    portal_index: 0,
                    group_index: 1,
                    side: 1,
                },
                WmoPortalReference {
                    portal_index: 7,
                    group_index: 2,
                    side: 0xFFFF,
                },
                WmoPortalReference {
                    portal_index: 65535,
                    group_index: 65535,
                    side: 0,
                },
            ];
            normalise(&mut r);
            r
        },
        false,
    );
    assert_eq!(n, 0);
}

#[test]
fn r13_visible_block_lists() {
    let a = run_root_probe(
        "r13a_visible_one_empty_list",
        |v| {
            let mut r = base_root(v);
            r.visible_block_lists = vec![vec![]];
            r
        },
        false,
    );
    let b = run_root_probe(
        "r13b_visible_several",
        |v| {
            let mut r = base_root(v);
            r.visible_block_lists = vec![vec![1, 2], vec![], vec![3], vec![0, 0xFFFE]];
            r
        },
        false,
    );
    let c = run_root_probe(
        "r13c_visible_contains_0xFFFF",
        |v| {
            let mut r = base_root(v);
            r.visible_block_lists = vec![vec![1, 0xFFFF, 2]];
            r
        },
        false,
    );
    assert_eq!(a + b + c, 0);
}

#[test]
fn r14_lights_each_type_default_properties() {
    let n = run_root_probe(
        "r14_lights_each_type_default_properties",
        |v| {
            let mut r = base_root(v);
            r.lights = vec![
                light(WmoLightType::Omni, 0),
                light(WmoLightType::Spot, 1),
                light(WmoLightType::Directional, 2),
                light(WmoLightType::Ambient, 3),
            ];
            normalise(&mut r);
            r
        },
        false,
    );
    assert_eq!(n, 0);
}

#[test]
fn r15_lights_non_default_properties() {
    let n = run_root_probe(
        "r15_lights_non_default_properties",
        |v| {
            let mut r = base_root(v);
            let mut s = light(WmoLightType::Spot, 0);
            s.properties = WmoLightProperties::Spot {
                direction: v3(1.0, 0.0, 0.0),
                hotspot: 0.3,
                falloff: 0.6,
            };
            let mut d = light(WmoLightType::Directional, 1);
            d.properties = WmoLightProperties::Directional {
                direction: v3(0.0, 1.0, 0.0),
            };
            r.lights = vec![s, d];
            normalise(&mut r);
            r
        },
        false,
    );
    assert_eq!(n, 0);
}

#[test]
fn r16_doodad_defs() {
    let a = run_root_probe(
        "r16a_doodad_defs_one_offset0",
        |v| {
            let mut r = base_root(v);
            r.doodad_defs = vec![doodad_def(0, 0)];
            normalise(&mut r);
            r
        },
        false,
    );
    let b = run_root_probe(
        "r16b_doodad_defs_one_offset5",
        |v| {
            let mut r = base_root(v);
            r.doodad_defs = vec![doodad_def(5, 0)];
            normalise(&mut r);
            r
        },
        false,
    );
    let c = run_root_probe(
        "r16c_doodad_defs_two_offsets_0_20",
        |v| {
            let mut r = base_root(v);
            r.doodad_defs = vec![doodad_def(0, 0), doodad_def(20, 1)];
            normalise(&mut r);
            r
        },
        false,
    );
    let d = run_root_probe(
        "r16d_doodad_defs_set_index",
        |v| {
            let mut r = base_root(v);
            let mut dd = doodad_def(0, 0);
            dd.set_index = 3;
            r.doodad_defs = vec![dd];
            normalise(&mut r);
            r
        },
        false,
    );
    assert_eq!(a + b + c + d, 0);
}

#[test]
fn r17_doodad_sets() {
    let a = run_root_probe(
        "r17a_doodad_sets_short_names",
        |v| {
            let mut r = base_root(v);
            r.doodad_sets = vec![
                doodad_set("Set_$DefaultGlobal", 0, 4),
                doodad_set("", 4, 0),
                doodad_set("x", 4, 9),
            ];
            normalise(&mut r);
            r
        },
        false,
    );
    let b = run_root_probe(
        "r17b_doodad_sets_name_19_bytes",
        |v| {
            let mut r = base_root(v);
            r.doodad_sets = vec![doodad_set("1234567890123456789", 0, 1)];
            normalise(&mut r);
            r
        },
        false,
    );
    let c = run_root_probe(
        "r17c_doodad_sets_name_20_bytes",
        |v| {
            let mut r = base_root(v);
            r.doodad_sets = vec![doodad_set("12345678901234567890", 0, 1)];
            normalise(&mut r);
            r
        },
        false,
    );
    assert_eq!(a + b + c, 0);
}

#[test]
fn r18_skybox_some() {
    let n = run_root_probe(
        "r18_skybox_some",
        |v| {
            let mut r = base_root(v);
            r.skybox = Some("sky\\box.m2".into());
            // model expectation: versions without skybox support legitimately drop it
            if v < WmoVersion::Wotlk {
                r.skybox = None;
            } else {
                r.header.flags |= WmoFlags::HAS_SKYBOX;
            }
            r
        },
        false,
    );
    assert_eq!(n, 0);
}

#[test]
fn r19_header_colour_and_flags() {
    let n = run_root_probe(
        "r19_header_colour_and_flags",
        |v| {
            let mut r = base_root(v);
            r.header.ambient_color = col(0x11, 0x22, 0x33, 0x44);
            // every defined flag except HAS_SKYBOX (which the writer derives from `skybox`)
            r.header.flags = WmoFlags::all() & !WmoFlags::HAS_SKYBOX;
            r
        },
        false,
    );
    assert_eq!(n, 0);
}

#[test]
fn r20_header_bounding_box_independent_of_groups() {
    let a = run_root_probe(
        "r20a_bounding_box_no_groups",
        |v| {
            let mut r = base_root(v);
            r.bounding_box = bb(-5.0, 5.0);
            r
        },
        false,
    );
    let b = run_root_probe(
        "r20b_bounding_box_differs_from_group_union",
        |v| {
            let mut r = base_root(v);
            r.groups = vec![group_info(0, "g")];
            normalise(&mut r);
            r.bounding_box = bb(-50.0, 50.0);
            r
        },
        false,
    );
    assert_eq!(a + b, 0);
}

#[test]
fn r21_convex_volume_planes() {
    let n = run_root_probe(
        "r21_convex_volume_planes",
        |v| {
            let mut r = base_root(v);
            if v >= WmoVersion::Cataclysm {
                r.convex_volume_planes = Some(WmoConvexVolumePlanes {
                    planes: vec![WmoConvexVolumePlane {
                        normal: v3(0.0, 0.0, 1.0),
                        distance: 2.0,
                        flags: 1,
                    }],
                });
            }
            r
        },
        false,
    );
    assert_eq!(n, 0);
}

#[test]
fn r22_header_counts_inconsistent_in_model() {
    // model header counts that disagree with the lists: the writer must emit list lengths
    let n = run_root_probe(
        "r22_header_counts_inconsistent_in_model",
        |v| {
            let mut r = base_root(v);
            r.doodad_sets = vec![doodad_set("a", 0, 0)];
            normalise(&mut r);
            let mut e = r;
            e.header.n_doodad_sets = 1; // what we expect back
            e
        },
        false,
    );
    assert_eq!(n, 0);
}

#[test]
fn r23_mohd_layout() {
    // On-disk SMOHeader (wowdev, and this crate's own root_parser::Mohd) is 64 bytes:
    // 7 counts, ambient colour, wmo_id, bbox (0x24..0x3C), flags u16 (0x3C), num_lod u16.
    let mut rep = Report::new();
    for v in VERSIONS {
        let mut m = base_root(v);
        m.header.flags = WmoFlags::OUTDOOR | WmoFlags::HAS_LIQUIDS; // 0x0A
        m.bounding_box = bb(-5.0, 5.0);
        let bytes = write_root(&m, v).unwrap();
        let (chunks, _) = walk_chunks(&bytes, 0, bytes.len());
        let (d, s) = (chunks[1].1, chunks[1].2);
        if s != 64 {
            note(
                &mut rep,
                v,
                format!("MOHD chunk size {s}, on-disk SMOHeader is 64"),
            );
        }
        if u32_at(&bytes, d + 0x20) != 0 {
            note(
                &mut rep,
                v,
                format!(
                    "MOHD+0x20 (wmo_id slot) holds {:#x} (the flags)",
                    u32_at(&bytes, d + 0x20)
                ),
            );
        }
        if s < 64 || u16::from_le_bytes([bytes[d + 0x3C], bytes[d + 0x3D]]) != 0x0A {
            note(
                &mut rep,
                v,
                "MOHD+0x3C (flags slot) does not hold the flags".into(),
            );
        }
        if f32::from_le_bytes([
            bytes[d + 0x24],
            bytes[d + 0x25],
            bytes[d + 0x26],
            bytes[d + 0x27],
        ]) != -5.0
        {
            note(
                &mut rep,
                v,
                "MOHD+0x24 does not hold bounding_box.min.x".into(),
            );
        }
    }
    assert_eq!(finish("r23_mohd_layout", rep), 0);
}

#[test]
fn r24_portal_vertex_index_overflow() {
    // MOPT start index / count are u16 on disk; the writer casts without checking
    let n = run_root_probe(
        "r24_portal_vertex_index_overflow",
        |v| {
            let mut r = base_root(v);
            r.portals = vec![portal(65536, 1.0), portal(1, 9.0)];
            normalise(&mut r);
            r
        },
        false,
    );
    assert_eq!(n, 0);
}

#[test]
fn r30_full_root() {
    assert_eq!(run_root_probe("r30_full_root", full_root, false), 0);
}

// ---------------------------------------------------------------------------
// parse_wmo (binrw root parser) cross-checks on the writer's bytes
// ---------------------------------------------------------------------------

#[test]
fn a00_api_empty_root() {
    let mut rep = Report::new();
    for v in VERSIONS {
        let bytes = write_root(&base_root(v), v).unwrap();
        match api_parse(&bytes) {
            Err(e) => note(&mut rep, v, e),
            Ok(ParsedWmo::Group(_)) => note(&mut rep, v, "classified as group".into()),
            Ok(ParsedWmo::Root(r)) => {
                for m in diff_api_root(&base_root(v), &r) {
                    note(&mut rep, v, m);
                }
            }
        }
    }
    assert_eq!(finish("a00_api_empty_root", rep), 0);
}

#[test]
fn a01_api_header_only_fields() {
    // a trailing chunk (MODS) keeps the 64-byte MOHD read of the binrw parser inside the file
    let mut rep = Report::new();
    for v in VERSIONS {
        let mut m = base_root(v);
        m.header.ambient_color = col(0x11, 0x22, 0x33, 0x44);
        m.header.flags = WmoFlags::OUTDOOR | WmoFlags::HAS_LIQUIDS;
        m.bounding_box = bb(-5.0, 5.0);
        m.doodad_sets = vec![doodad_set("a", 0, 0)];
        normalise(&mut m);
        let bytes = write_root(&m, v).unwrap();
        match api_parse(&bytes) {
            Err(e) => note(&mut rep, v, e),
            Ok(ParsedWmo::Group(_)) => note(&mut rep, v, "classified as group".into()),
            Ok(ParsedWmo::Root(r)) => {
                for x in diff_api_root(&m, &r) {
                    note(&mut rep, v, x);
                }
            }
        }
    }
    assert_eq!(finish("a01_api_header_only_fields", rep), 0);
}

#[test]
fn a02_api_full_root() {
    let mut rep = Report::new();
    for v in VERSIONS {
        let m = full_root(v);
        let bytes = write_root(&m, v).unwrap();
        match api_parse(&bytes) {
            Err(e) => note(&mut rep, v, e),
            Ok(ParsedWmo::Group(_)) => note(&mut rep, v, "classified as group".into()),
            Ok(ParsedWmo::Root(r)) => {
                for x in diff_api_root(&m, &r) {
                    note(&mut rep, v, x);
                }
            }
        }
    }
    assert_eq!(finish("a02_api_full_root", rep), 0);
}

// ---------------------------------------------------------------------------
// GROUP probes
// ---------------------------------------------------------------------------

fn base_group() -> WmoGroup {
    WmoGroup {
        header: WmoGroupHeader {
            flags: WmoGroupFlags::HAS_NORMALS | WmoGroupFlags::INDOOR,
            bounding_box: bb(-3.0, 4.0),
            name_offset: 6,
            group_index: 2,
        },
        materials: vec![],
        vertices: vec![],
        normals: vec![],
        tex_coords: vec![],
        batches: vec![],
        indices: vec![],
        vertex_colors: None,
        bsp_nodes: None,
        liquid: None,
        doodad_refs: None,
    }
}

fn batch(i: u16) -> WmoBatch {
    WmoBatch {
        flags: [0; 10],
        material_id: i,
        start_index: 3 * i as u32,
        count: 3,
        start_vertex: 0,
        end_vertex: 2,
        use_large_material_id: false,
    }
}

fn bsp(axis: usize, dist: f32, c: [i16; 2], first: u16, n: u16) -> WmoBspNode {
    let mut nrm = v3(0.0, 0.0, 0.0);
    match axis {
        0 => nrm.x = 1.0,
        1 => nrm.y = 1.0,
        _ => nrm.z = 1.0,
    }
    WmoBspNode {
        plane: WmoPlane {
            normal: nrm,
            distance: dist,
        },
        children: c,
        first_face: first,
        num_faces: n,
    }
}

fn liquid(w: u32, h: u32, tiles: bool) -> WmoLiquid {
    WmoLiquid {
        liquid_type: 13,
        flags: 0,
        width: w,
        height: h,
        vertices: (0..w * h)
            .map(|i| WmoLiquidVertex {
                position: v3(i as f32, 1.0, 2.0),
                height: 0.25 * i as f32,
            })
            .collect(),
        tile_flags: if tiles {
            Some(
                (0..(w.saturating_sub(1)) * (h.saturating_sub(1)))
                    .map(|i| i as u8)
                    .collect(),
            )
        } else {
            None
        },
    }
}

fn full_group() -> WmoGroup {
    let mut g = base_group();
    g.materials = vec![0, 1];
    g.vertices = vec![v3(0.0, 0.0, 0.0), v3(1.0, 0.0, 0.0), v3(0.0, 1.0, 0.5)];
    g.normals = vec![v3(0.0, 0.0, 1.0); 3];
    g.tex_coords = vec![
        TexCoord { u: 0.0, v: 0.0 },
        TexCoord { u: 1.0, v: 0.0 },
        TexCoord { u: 0.0, v: 1.0 },
    ];
    g.indices = vec![0, 1, 2, 2, 1, 0];
    g.batches = vec![batch(0), batch(1)];
    g.vertex_colors = Some(vec![col(1, 2, 3, 4), col(5, 6, 7, 8), col(9, 10, 11, 12)]);
    g.bsp_nodes = Some(vec![
        bsp(0, 0.5, [1, 2], 0, 0),
        bsp(1, 1.5, [-1, -1], 0, 1),
        bsp(2, 2.5, [-1, -1], 1, 1),
    ]);
    g.liquid = Some(liquid(2, 2, true));
    g.doodad_refs = Some(vec![3, 4, 5]);
    g
}

fn write_group(g: &WmoGroup, v: WmoVersion) -> Result<Vec<u8>, String> {
    let mut c = Cursor::new(Vec::new());
    match catch_unwind(AssertUnwindSafe(|| {
        WmoWriter::new().write_group(&mut c, g, v)
    })) {
        Ok(Ok(())) => Ok(c.into_inner()),
        Ok(Err(e)) => Err(format!("write_group error: {e}")),
        Err(_) => Err("write_group PANIC".into()),
    }
}

fn diff_api_group(e: &WmoGroup, g: &wow_wmo::group_parser::WmoGroup) -> Vec<String> {
    let mut o = vec![];
    cmp!(
        o,
        "grp.group_name_index",
        e.header.name_offset,
        g.group_name_index
    );
    cmp!(o, "grp.flags", e.header.flags.bits(), g.flags);
    let b = e.header.bounding_box;
    cmp!(
        o,
        "grp.bounding_box",
        vec![b.min.x, b.min.y, b.min.z, b.max.x, b.max.y, b.max.z],
        g.bounding_box
    );
    let f3 = |v: &Vec3| [v.x, v.y, v.z];
    cmp!(
        o,
        "grp.vertices",
        e.vertices.iter().map(f3).collect::<Vec<_>>(),
        g.vertex_positions
            .iter()
            .map(|v| [v.x, v.y, v.z])
            .collect::<Vec<_>>()
    );
    cmp!(
        o,
        "grp.normals",
        e.normals.iter().map(f3).collect::<Vec<_>>(),
        g.vertex_normals
            .iter()
            .map(|v| [v.x, v.y, v.z])
            .collect::<Vec<_>>()
    );
    cmp!(
        o,
        "grp.tex_coords",
        e.tex_coords.iter().map(|t| [t.u, t.v]).collect::<Vec<_>>(),
        g.texture_coords
            .iter()
            .map(|t| [t.u, t.v])
            .collect::<Vec<_>>()
    );
    cmp!(o, "grp.indices", e.indices, g.vertex_indices);
    let ec: Vec<[u8; 4]> = e
        .vertex_colors
        .clone()
        .unwrap_or_default()
        .iter()
        .map(|c| [c.r, c.g, c.b, c.a])
        .collect();
    let gc: Vec<[u8; 4]> = g
        .vertex_colors
        .iter()
        .map(|c| [c.r, c.g, c.b, c.a])
        .collect();
    cmp!(o, "grp.vertex_colors(rgba)", ec, gc);
    let eb: Vec<(u32, u16, u16, u16, u16)> = e
        .batches
        .iter()
        .map(|b| {
            (
                b.start_index,
                b.count,
                b.start_vertex,
                b.end_vertex,
                b.material_id,
            )
        })
        .collect();
    let gb: Vec<(u32, u16, u16, u16, u16)> = g
        .render_batches
        .iter()
        .map(|b| {
            (
                b.start_index,
                b.count,
                b.min_index,
                b.max_index,
                b.material_id as u16,
            )
        })
        .collect();
    cmp!(o, "grp.batches(start,count,minv,maxv,mat)", eb, gb);
    // BSP: (neg_child, pos_child, n_faces, face_start, plane_distance)
    let en: Vec<(i16, i16, u16, u32, f32)> = e
        .bsp_nodes
        .clone()
        .unwrap_or_default()
        .iter()
        .map(|n| {
            (
                n.children[0],
                n.children[1],
                n.num_faces,
                n.first_face as u32,
                n.plane.distance,
            )
        })
        .collect();
    let gn: Vec<(i16, i16, u16, u32, f32)> = g
        .bsp_nodes
        .iter()
        .map(|n| {
            (
                n.neg_child,
                n.pos_child,
                n.n_faces,
                n.face_start,
                n.plane_distance,
            )
        })
        .collect();
    cmp!(o, "grp.bsp_nodes(neg,pos,nfaces,first,dist)", en, gn);
    cmp!(
        o,
        "grp.doodad_refs",
        e.doodad_refs.clone().unwrap_or_default(),
        g.doodad_refs
    );
    cmp!(
        o,
        "grp.liquid.is_some",
        e.liquid.is_some(),
        g.liquid_header.is_some()
    );
    o
}

fn run_group_probe(probe: &str, build: impl Fn() -> WmoGroup) -> usize {
    let mut rep = Report::new();
    for v in VERSIONS {
        let model = build();
        let bytes = match write_group(&model, v) {
            Ok(b) => b,
            Err(e) => {
                note(&mut rep, v, e);
                continue;
            }
        };
        // top level: MVER, MOGP exactly to EOF
        let (top, err) = walk_chunks(&bytes, 0, bytes.len());
        if let Some(e) = err {
            note(&mut rep, v, format!("top-level chunk walk: {e}"));
        }
        if top.len() != 2 || top[1].0 != "MOGP" {
            note(
                &mut rep,
                v,
                format!(
                    "top-level chunks {:?}",
                    top.iter().map(|c| c.0.clone()).collect::<Vec<_>>()
                ),
            );
        } else {
            let (d, s) = (top[1].1, top[1].2);
            // sub-chunks: on-disk MOGP header is 68 bytes
            if s < 68 {
                note(
                    &mut rep,
                    v,
                    format!("MOGP size {s} < 68-byte on-disk header"),
                );
            } else {
                let (_, e68) = walk_chunks(&bytes, d + 68, d + s);
                if let Some(e) = e68 {
                    note(
                        &mut rep,
                        v,
                        format!("sub-chunk walk after 68-byte MOGP header: {e}"),
                    );
                }
            }
            let (_, e36) = walk_chunks(&bytes, d + 36, d + s);
            if e36.is_none() {
                note(&mut rep, v, "sub-chunks start 36 bytes into MOGP (writer-specific header, not the 68-byte one)".into());
            }
        }
        // the named observation point
        let mut c = Cursor::new(bytes.clone());
        match catch_unwind(AssertUnwindSafe(|| {
            WmoGroupParser::new().parse_group(&mut c, model.header.group_index)
        })) {
            Ok(Ok(_)) => {}
            Ok(Err(e)) => note(
                &mut rep,
                v,
                format!("WmoGroupParser::parse_group error: {e}"),
            ),
            Err(_) => note(&mut rep, v, "WmoGroupParser::parse_group PANIC".into()),
        }
        // parse_wmo
        match api_parse(&bytes) {
            Err(e) => note(&mut rep, v, e),
            Ok(ParsedWmo::Root(_)) => {
                note(&mut rep, v, "parse_wmo classified group as Root".into())
            }
            Ok(ParsedWmo::Group(g)) => {
                for m in diff_api_group(&model, &g) {
                    note(&mut rep, v, m);
                }
            }
        }
    }
    finish(probe, rep)
}

#[test]
fn g00_group_empty() {
    assert_eq!(run_group_probe("g00_group_empty", base_group), 0);
}

#[test]
fn g01_group_vertices_only() {
    let n = run_group_probe("g01_group_vertices_only", || {
        let mut g = base_group();
        g.vertices = vec![
            v3(0.0, 0.0, 0.0),
            v3(1.0, 0.0, 0.0),
            v3(0.0, 1.0, 0.5),
            v3(2.0, 2.0, 2.0),
        ];
        g
    });
    assert_eq!(n, 0);
}

#[test]
fn g02_group_bsp_only() {
    let n = run_group_probe("g02_group_bsp_only", || {
        let mut g = base_group();
        // pad with vertices so the 68-byte header read of parse_wmo stays inside MOGP
        g.vertices = vec![v3(0.0, 0.0, 0.0); 4];
        g.bsp_nodes = Some(vec![bsp(1, 1.5, [-1, -1], 3, 7)]);
        g
    });
    assert_eq!(n, 0);
}

#[test]
fn g02b_mobn_bytes_follow_on_disk_layout() {
    // CAaBspNode: u16 flags (0/1/2 = axis, 4 = leaf), i16 negChild, i16 posChild,
    // u16 nFaces, u32 faceStart, f32 planeDist  (same as chunks::MobnEntry)
    let mut rep = Report::new();
    for v in VERSIONS {
        let mut g = base_group();
        g.bsp_nodes = Some(vec![
            bsp(1, 1.5, [4, 5], 0, 0),
            bsp(2, -2.5, [-1, -1], 3, 7),
        ]);
        let bytes = write_group(&g, v).unwrap();
        let p = bytes.windows(4).position(|w| w == b"NBOM").unwrap() + 8;
        let u16a = |o: usize| u16::from_le_bytes([bytes[o], bytes[o + 1]]);
        let node = |o: usize| {
            (
                u16a(o),
                u16a(o + 2) as i16,
                u16a(o + 4) as i16,
                u16a(o + 6),
                u32_at(&bytes, o + 8),
                f32::from_le_bytes([bytes[o + 12], bytes[o + 13], bytes[o + 14], bytes[o + 15]]),
            )
        };
        let mut o = vec![];
        cmp!(
            o,
            "MOBN[0](flags,neg,pos,nfaces,start,dist)",
            (1u16, 4i16, 5i16, 0u16, 0u32, 1.5f32),
            node(p)
        );
        cmp!(
            o,
            "MOBN[1](flags,neg,pos,nfaces,start,dist)",
            (6u16, -1i16, -1i16, 7u16, 3u32, -2.5f32),
            node(p + 16)
        );
        for m in o {
            note(&mut rep, v, m);
        }
    }
    assert_eq!(finish("g02b_mobn_bytes_follow_on_disk_layout", rep), 0);
}

#[test]
fn g03_group_liquid_only() {
    let n = run_group_probe("g03_group_liquid_only", || {
        let mut g = base_group();
        g.liquid = Some(liquid(2, 2, true));
        g
    });
    assert_eq!(n, 0);
}

#[test]
fn g04_group_liquid_zero_width() {
    // an error is acceptable, a panic is not
    let mut rep = Report::new();
    for v in VERSIONS {
        let mut g = base_group();
        g.liquid = Some(liquid(0, 0, false));
        if let Err(e) = write_group(&g, v) {
            if e.contains("PANIC") {
                note(&mut rep, v, e);
            }
        }
    }
    assert_eq!(finish("g04_group_liquid_zero_width", rep), 0);
}

#[test]
fn g05_group_doodad_refs_only() {
    let n = run_group_probe("g05_group_doodad_refs_only", || {
        let mut g = base_group();
        g.vertices = vec![v3(0.0, 0.0, 0.0); 4];
        g.doodad_refs = Some(vec![3, 4, 5]);
        g
    });
    assert_eq!(n, 0);
}

#[test]
fn g06_group_materials_mopy() {
    // group.materials is never written (no MOPY chunk)
    let mut rep = Report::new();
    for v in VERSIONS {
        let mut g = base_group();
        g.materials = vec![1, 2, 3];
        let bytes = write_group(&g, v).unwrap();
        let has_mopy = bytes.windows(4).any(|w| w == b"YPOM");
        if !has_mopy {
            note(
                &mut rep,
                v,
                "group.materials non-empty but no MOPY chunk written".into(),
            );
        }
    }
    assert_eq!(finish("g06_group_materials_mopy", rep), 0);
}

#[test]
fn g07_parse_wmo_short_mogp_does_not_panic() {
    // MOGP smaller than the 68-byte header, followed by enough bytes for the header read
    let mut data = Vec::new();
    data.extend_from_slice(b"REVM");
    data.extend_from_slice(&4u32.to_le_bytes());
    data.extend_from_slice(&17u32.to_le_bytes());
    data.extend_from_slice(b"PGOM");
    data.extend_from_slice(&40u32.to_le_bytes());
    data.extend_from_slice(&[0u8; 40]);
    data.extend_from_slice(b"RDOM");
    data.extend_from_slice(&100u32.to_le_bytes());
    data.extend_from_slice(&[0u8; 100]);
    let mut rep = Report::new();
    match api_parse(&data) {
        Err(e) if e.contains("PANIC") => note(&mut rep, WmoVersion::Classic, e),
        _ => {}
    }
    assert_eq!(finish("g07_parse_wmo_short_mogp_does_not_panic", rep), 0);
}

#[test]
fn g08_parse_wmo_nested_modr_molr() {
    // hand-built, format-conformant group: 68-byte MOGP header, MOLR and MODR nested in MOGP
    let mut sub = Vec::new();
    sub.extend_from_slice(b"RLOM");
    sub.extend_from_slice(&4u32.to_le_bytes());
    sub.extend_from_slice(&7u16.to_le_bytes());
    sub.extend_from_slice(&8u16.to_le_bytes());
    sub.extend_from_slice(b"RDOM");
    sub.extend_from_slice(&6u32.to_le_bytes());
    for r in [3u16, 4, 5] {
        sub.extend_from_slice(&r.to_le_bytes());
    }
    let mut data = Vec::new();
    data.extend_from_slice(b"REVM");
    data.extend_from_slice(&4u32.to_le_bytes());
    data.extend_from_slice(&17u32.to_le_bytes());
    data.extend_from_slice(b"PGOM");
    data.extend_from_slice(&((68 + sub.len()) as u32).to_le_bytes());
    data.extend_from_slice(&[0u8; 68]);
    data.extend_from_slice(&sub);
    let mut rep = Report::new();
    match api_parse(&data) {
        Ok(ParsedWmo::Group(g)) => {
            let mut o = vec![];
            cmp!(o, "light_refs", vec![7u16, 8], g.light_refs);
            cmp!(o, "doodad_refs", vec![3u16, 4, 5], g.doodad_refs);
            for m in o {
                note(&mut rep, WmoVersion::Classic, m);
            }
        }
        Ok(_) => note(&mut rep, WmoVersion::Classic, "classified as root".into()),
        Err(e) => note(&mut rep, WmoVersion::Classic, e),
    }
    assert_eq!(finish("g08_parse_wmo_nested_modr_molr", rep), 0);
}

#[test]
fn g09_parse_wmo_chunk_after_mliq() {
    // hand-built: 68-byte MOGP header, MLIQ (30-byte on-disk header + 1 vertex + 0 tiles,
    // padded to 40 bytes) followed by MOVI.  Whatever is in MLIQ, MOVI must be found.
    let mut sub = Vec::new();
    sub.extend_from_slice(b"QILM");
    sub.extend_from_slice(&40u32.to_le_bytes());
    sub.extend_from_slice(&[0x11u8; 40]); // non-zero payload
    sub.extend_from_slice(b"IVOM");
    sub.extend_from_slice(&6u32.to_le_bytes());
    for r in [3u16, 4, 5] {
        sub.extend_from_slice(&r.to_le_bytes());
    }
    let mut data = Vec::new();
    data.extend_from_slice(b"REVM");
    data.extend_from_slice(&4u32.to_le_bytes());
    data.extend_from_slice(&17u32.to_le_bytes());
    data.extend_from_slice(b"PGOM");
    data.extend_from_slice(&((68 + sub.len()) as u32).to_le_bytes());
    data.extend_from_slice(&[0u8; 68]);
    data.extend_from_slice(&sub);
    let mut rep = Report::new();
    match api_parse(&data) {
        Ok(ParsedWmo::Group(g)) => {
            let mut o = vec![];
            cmp!(o, "liquid_header.is_some", true, g.liquid_header.is_some());
            cmp!(o, "vertex_indices", vec![3u16, 4, 5], g.vertex_indices);
            for m in o {
                note(&mut rep, WmoVersion::Classic, m);
            }
        }
        Ok(_) => note(&mut rep, WmoVersion::Classic, "classified as root".into()),
        Err(e) => note(&mut rep, WmoVersion::Classic, e),
    }
    assert_eq!(finish("g09_parse_wmo_chunk_after_mliq", rep), 0);
}

#[test]
fn g30_group_full() {
    assert_eq!(run_group_probe("g30_group_full", full_group), 0);
}

// ---------------------------------------------------------------------------
// Converter probes
// ---------------------------------------------------------------------------

#[test]
fn c00_convert_root_preserves_content() {
    let mut rep = Report::new();
    for from in VERSIONS {
        for to in VERSIONS {
            let mut orig = full_root(from);
            orig.skybox = if from >= WmoVersion::Wotlk {
                Some("sky.m2".into())
            } else {
                None
            };
            orig.materials[0].flags |= WmoMaterialFlags::SHADOW_BATCH_1;
            let mut conv = full_root(from);
            conv.skybox = orig.skybox.clone();
            conv.materials[0].flags |= WmoMaterialFlags::SHADOW_BATCH_1;
            if let Err(e) = WmoConverter::new().convert_root(&mut conv, to) {
                note(&mut rep, from, format!("->{to:?}: convert_root error {e}"));
                continue;
            }
            if conv.version != to {
                note(
                    &mut rep,
                    from,
                    format!("->{to:?}: version after convert {:?}", conv.version),
                );
            }
            // expectation: everything equal except version and (if unsupported) skybox
            let mut exp = orig;
            exp.version = to;
            if to < WmoVersion::Wotlk {
                exp.skybox = None;
            }
            for m in diff_root(&exp, &conv) {
                note(&mut rep, from, format!("->{to:?} in-memory: {m}"));
            }
        }
    }
    assert_eq!(finish("c00_convert_root_preserves_content", rep), 0);
}

#[test]
fn c01_convert_group_preserves_content() {
    let mut rep = Report::new();
    for from in VERSIONS {
        for to in VERSIONS {
            let mut g = full_group();
            g.header.flags = WmoGroupFlags::all();
            let before = format!("{:?}", g);
            if let Err(e) = WmoConverter::new().convert_group(&mut g, to, from) {
                note(&mut rep, from, format!("->{to:?}: convert_group error {e}"));
                continue;
            }
            let after = format!("{:?}", g);
            if before != after {
                let ff = WmoGroupFlags::all();
                let mut what = vec![];
                if g.header.flags != ff {
                    what.push(format!("flags lost {:?}", ff & !g.header.flags));
                }
                if g.liquid.as_ref().unwrap().flags != 0 {
                    what.push(format!(
                        "liquid.flags 0 -> {}",
                        g.liquid.as_ref().unwrap().flags
                    ));
                }
                note(
                    &mut rep,
                    from,
                    format!("->{to:?}: group changed: {}", what.join("; ")),
                );
            }
        }
    }
    assert_eq!(finish("c01_convert_group_preserves_content", rep), 0);
}
